//! Tables and small predicates written from the OASIS MQTT 3.1.1 / 5.0 texts. Nothing in here
//! uses a constant, table or function of the library under test.

/// Wire type of a property value (MQTT 5 §2.2.2.2, Table 2-4).
#[derive(Clone, Copy, PartialEq, Eq, Debug)]
pub enum PType {
    Byte,
    U16,
    U32,
    Var,
    Str,
    Bin,
    Pair,
}

pub const PROP_IDS: [u8; 27] = [
    0x01, 0x02, 0x03, 0x08, 0x09, 0x0B, 0x11, 0x12, 0x13, 0x15, 0x16, 0x17, 0x18, 0x19, 0x1A, 0x1C,
    0x1F, 0x21, 0x22, 0x23, 0x24, 0x25, 0x26, 0x27, 0x28, 0x29, 0x2A,
];

pub fn prop_type(id: u8) -> Option<PType> {
    Some(match id {
        0x01 => PType::Byte, // Payload Format Indicator
        0x02 => PType::U32,  // Message Expiry Interval
        0x03 => PType::Str,  // Content Type
        0x08 => PType::Str,  // Response Topic
        0x09 => PType::Bin,  // Correlation Data
        0x0B => PType::Var,  // Subscription Identifier
        0x11 => PType::U32,  // Session Expiry Interval
        0x12 => PType::Str,  // Assigned Client Identifier
        0x13 => PType::U16,  // Server Keep Alive
        0x15 => PType::Str,  // Authentication Method
        0x16 => PType::Bin,  // Authentication Data
        0x17 => PType::Byte, // Request Problem Information
        0x18 => PType::U32,  // Will Delay Interval
        0x19 => PType::Byte, // Request Response Information
        0x1A => PType::Str,  // Response Information
        0x1C => PType::Str,  // Server Reference
        0x1F => PType::Str,  // Reason String
        0x21 => PType::U16,  // Receive Maximum
        0x22 => PType::U16,  // Topic Alias Maximum
        0x23 => PType::U16,  // Topic Alias
        0x24 => PType::Byte, // Maximum QoS
        0x25 => PType::Byte, // Retain Available
        0x26 => PType::Pair, // User Property
        0x27 => PType::U32,  // Maximum Packet Size
        0x28 => PType::Byte, // Wildcard Subscription Available
        0x29 => PType::Byte, // Subscription Identifier Available
        0x2A => PType::Byte, // Shared Subscription Available
        _ => return None,
    })
}

/// Name the library's `PropertyId` Debug uses, for expected-error strings only.
pub fn prop_name(id: u8) -> &'static str {
    match id {
        0x01 => "PayloadFormatIndicator",
        0x02 => "MessageExpiryInterval",
        0x03 => "ContentType",
        0x08 => "ResponseTopic",
        0x09 => "CorrelationData",
        0x0B => "SubscriptionIdentifier",
        0x11 => "SessionExpiryInterval",
        0x12 => "AssignedClientIdentifier",
        0x13 => "ServerKeepAlive",
        0x15 => "AuthenticationMethod",
        0x16 => "AuthenticationData",
        0x17 => "RequestProblemInformation",
        0x18 => "WillDelayInterval",
        0x19 => "RequestResponseInformation",
        0x1A => "ResponseInformation",
        0x1C => "ServerReference",
        0x1F => "ReasonString",
        0x21 => "ReceiveMaximum",
        0x22 => "TopicAliasMaximum",
        0x23 => "TopicAlias",
        0x24 => "MaximumQoS",
        0x25 => "RetainAvailable",
        0x26 => "UserProperty",
        0x27 => "MaximumPacketSize",
        0x28 => "WildcardSubscriptionAvailable",
        0x29 => "SubscriptionIdentifierAvailable",
        0x2A => "SharedSubscriptionAvailable",
        _ => "?",
    }
}

/// Packet-type name as the library's v5 `PacketType` Debug prints it (expected-error strings).
pub fn lib_type_name(t: u8) -> &'static str {
    match t {
        1 => "Connect",
        2 => "Connack",
        3 => "Publish",
        4 => "Puback",
        5 => "Pubrec",
        6 => "Pubrel",
        7 => "Pubcomp",
        8 => "Subscribe",
        9 => "Suback",
        10 => "Unsubscribe",
        11 => "Unsuback",
        12 => "Pingreq",
        13 => "Pingresp",
        14 => "Disconnect",
        15 => "Auth",
        _ => "?",
    }
}

pub const WILL: u8 = 0; // pseudo packet type for will properties

/// Properties allowed in packet type `t` (0 = will properties). User Property (0x26) is allowed
/// wherever a property list exists.
pub fn allowed_props(t: u8) -> &'static [u8] {
    match t {
        0 => &[0x18, 0x01, 0x02, 0x03, 0x08, 0x09, 0x26],
        1 => &[0x11, 0x21, 0x27, 0x22, 0x19, 0x17, 0x15, 0x16, 0x26],
        2 => &[
            0x11, 0x21, 0x24, 0x25, 0x27, 0x12, 0x22, 0x1F, 0x28, 0x29, 0x2A, 0x13, 0x1A, 0x1C,
            0x15, 0x16, 0x26,
        ],
        3 => &[0x01, 0x02, 0x23, 0x08, 0x09, 0x0B, 0x03, 0x26],
        4..=7 => &[0x1F, 0x26],
        8 => &[0x0B, 0x26],
        9 => &[0x1F, 0x26],
        10 => &[0x26],
        11 => &[0x1F, 0x26],
        14 => &[0x11, 0x1F, 0x1C, 0x26],
        15 => &[0x15, 0x16, 0x1F, 0x26],
        _ => &[],
    }
}

/// May this property appear more than once in packet type `t`?
/// User Property always; Subscription Identifier in PUBLISH (MQTT 5 §3.3.2.3.8).
pub fn may_repeat(t: u8, id: u8) -> bool {
    id == 0x26 || (t == 3 && id == 0x0B)
}

/// Reason codes permitted in packet type `t` of MQTT 5 (the packet's own section; for DISCONNECT
/// §3.14.2.1, which does not list 0x8C although Table 2-6 does).
pub fn reason_codes(t: u8) -> &'static [u8] {
    match t {
        2 => &[
            0x00, 0x80, 0x81, 0x82, 0x83, 0x84, 0x85, 0x86, 0x87, 0x88, 0x89, 0x8A, 0x8C, 0x90,
            0x95, 0x97, 0x99, 0x9A, 0x9B, 0x9C, 0x9D, 0x9F,
        ],
        4 | 5 => &[0x00, 0x10, 0x80, 0x83, 0x87, 0x90, 0x91, 0x97, 0x99],
        6 | 7 => &[0x00, 0x92],
        9 => &[0x00, 0x01, 0x02, 0x80, 0x83, 0x87, 0x8F, 0x91, 0x97, 0x9E, 0xA1, 0xA2],
        11 => &[0x00, 0x11, 0x80, 0x83, 0x87, 0x8F, 0x91],
        14 => &[
            0x00, 0x04, 0x80, 0x81, 0x82, 0x83, 0x87, 0x89, 0x8B, 0x8D, 0x8E, 0x8F, 0x90, 0x93,
            0x94, 0x95, 0x96, 0x97, 0x98, 0x99, 0x9A, 0x9B, 0x9C, 0x9D, 0x9E, 0x9F, 0xA0, 0xA1,
            0xA2,
        ],
        15 => &[0x00, 0x18, 0x19],
        _ => &[],
    }
}

/// v3 CONNACK return codes and SUBACK return codes.
pub const V3_CONNACK_CODES: [u8; 6] = [0, 1, 2, 3, 4, 5];
pub const V3_SUBACK_CODES: [u8; 4] = [0, 1, 2, 0x80];

/// Required low nibble of the first byte, per type (None: PUBLISH, free flags; Err for reserved).
pub fn fixed_flags(t: u8, v5: bool) -> Option<u8> {
    match t {
        1 | 2 | 4 | 5 | 7 | 9 | 11 | 12 | 13 | 14 => Some(0),
        6 | 8 | 10 => Some(2),
        15 if v5 => Some(0),
        _ => None,
    }
}

// ---------------------------------------------------------------------------------------------
// Variable byte integer (MQTT 5 §1.5.5)

pub fn varint(mut x: u32) -> Vec<u8> {
    let mut v = Vec::with_capacity(4);
    loop {
        let mut b = (x % 128) as u8;
        x /= 128;
        if x > 0 {
            b |= 0x80;
        }
        v.push(b);
        if x == 0 {
            return v;
        }
    }
}

/// Non-minimal encoding of `x` padded to `width` bytes (width in 1..=4, >= minimal width).
pub fn varint_padded(x: u32, width: usize) -> Vec<u8> {
    let mut v = varint(x);
    while v.len() < width {
        let last = v.len() - 1;
        v[last] |= 0x80;
        v.push(0);
    }
    v
}

pub fn varint_len(x: u32) -> usize {
    if x < 128 {
        1
    } else if x < 16_384 {
        2
    } else if x < 2_097_152 {
        3
    } else {
        4
    }
}

pub const VARINT_MAX: u32 = 268_435_455;

#[derive(Debug, Clone, Copy, PartialEq, Eq)]
pub enum VarErr {
    NeedMore,
    TooLong,
}

/// Returns (value, bytes used, minimal?).
pub fn read_varint(b: &[u8]) -> Result<(u32, usize, bool), VarErr> {
    let mut val: u32 = 0;
    for i in 0..4 {
        let Some(&byte) = b.get(i) else { return Err(VarErr::NeedMore) };
        val |= u32::from(byte & 0x7f) << (7 * i);
        if byte & 0x80 == 0 {
            return Ok((val, i + 1, varint_len(val) == i + 1));
        }
    }
    Err(VarErr::TooLong)
}

/// Fixed-header framing of a stream prefix: (header length, remaining length).
pub fn ref_frame(b: &[u8]) -> Result<(usize, usize), VarErr> {
    if b.is_empty() {
        return Err(VarErr::NeedMore);
    }
    let (v, n, _) = read_varint(&b[1..])?;
    Ok((1 + n, v as usize))
}

// ---------------------------------------------------------------------------------------------
// Topic names and filters (MQTT 4.7, MQTT 5 §4.8.2)

pub fn topic_name_ok(s: &str) -> bool {
    s.len() <= 65_535 && !s.chars().any(|c| c == '+' || c == '#' || c == '\0')
}

fn plain_filter_ok(s: &str) -> bool {
    if s.is_empty() {
        return false;
    }
    let levels: Vec<&str> = s.split('/').collect();
    let last = levels.len() - 1;
    for (i, lv) in levels.iter().enumerate() {
        if lv.contains('#') && !(*lv == "#" && i == last) {
            return false;
        }
        if lv.contains('+') && *lv != "+" {
            return false;
        }
    }
    true
}

pub fn topic_filter_ok(s: &str) -> bool {
    if s.is_empty() || s.len() > 65_535 || s.contains('\0') {
        return false;
    }
    if let Some(rest) = s.strip_prefix("$share/") {
        // $share/{ShareName}/{filter}
        let Some((name, filter)) = rest.split_once('/') else { return false };
        if name.is_empty() || name.contains('+') || name.contains('#') {
            return false;
        }
        return plain_filter_ok(filter);
    }
    plain_filter_ok(s)
}

/// (share name, filter) of a valid shared filter.
pub fn share_split(s: &str) -> Option<(&str, &str)> {
    let rest = s.strip_prefix("$share/")?;
    rest.split_once('/')
}

#[cfg(test)]
mod tests {
    use super::*;
    #[test]
    fn varints() {
        for x in [0u32, 1, 127, 128, 16383, 16384, 2097151, 2097152, VARINT_MAX] {
            let v = varint(x);
            assert_eq!(v.len(), varint_len(x));
            assert_eq!(read_varint(&v), Ok((x, v.len(), true)));
            for w in v.len()..=4 {
                let p = varint_padded(x, w);
                assert_eq!(p.len(), w);
                assert_eq!(read_varint(&p), Ok((x, w, w == v.len())));
            }
        }
        assert_eq!(read_varint(&[0x80, 0x80, 0x80, 0x80, 0x01]), Err(VarErr::TooLong));
        assert_eq!(read_varint(&[0x80]), Err(VarErr::NeedMore));
    }
    #[test]
    fn filters() {
        for ok in ["a", "/", "#", "+", "a/#", "a/+/b", "+/+", "$share/g/a", "$share/g/#", "$share/g//", "$SYS/#", "$sharex", "$share"] {
            assert!(topic_filter_ok(ok), "{ok}");
        }
        for bad in ["", "a#", "#/a", "a/#/b", "+x", "a/+x", "x+", "$share/", "$share/g", "$share/g/", "$share//a", "$share/g+/a", "$share/g/+x", "a\0"] {
            assert!(!topic_filter_ok(bad), "{bad}");
        }
    }
}
