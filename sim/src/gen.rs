//! Swarm-style workload generation: each run first draws a configuration, then valid packets
//! (as neutral ASTs) under it. Validity is judged by the reference rules in `spec`, not by the
//! library.

use crate::ast::*;
use crate::rng::Rng;
use crate::spec::{self, PType};

/// Small-workload switch for the Miri leg (interpretation is ~1000x slower than native code):
/// field lengths <= 16 bytes, <= 2 user properties, no frame-size targeting.
pub static TINY: std::sync::atomic::AtomicBool = std::sync::atomic::AtomicBool::new(false);

pub fn tiny() -> bool {
    TINY.load(std::sync::atomic::Ordering::Relaxed)
}

#[derive(Clone, Debug)]
pub struct Swarm {
    pub fam: Fam,
    /// enabled packet types (type numbers)
    pub types: Vec<u8>,
    /// 0: ASCII, 1: 2/3/4-byte UTF-8 mix, 2: boundary code points, 3: mixed
    pub alphabet: u8,
    /// optional-field presence probability in 1/20ths
    pub opt_p: u64,
    pub max_user_props: usize,
    /// permil chance that a length is drawn from the large classes
    pub big_permil: u64,
    /// allow frame-size targeting up to this remaining length
    pub max_frame: usize,
}

impl Swarm {
    fn shrink_if_tiny(mut self) -> Swarm {
        if tiny() {
            self.max_user_props = self.max_user_props.min(2);
            self.big_permil = 0;
            self.max_frame = 0;
        }
        self
    }
}

pub fn all_types(fam: Fam) -> Vec<u8> {
    if fam.is_v5() {
        (1..=15).collect()
    } else {
        (1..=14).collect()
    }
}

pub fn pick_fam(rng: &mut Rng) -> Fam {
    match rng.below(5) {
        0 => Fam::V31,
        1 | 2 => Fam::V311,
        _ => Fam::V5,
    }
}

pub fn swarm(rng: &mut Rng, thorough: bool) -> Swarm {
    let fam = pick_fam(rng);
    swarm_for(rng, fam, thorough)
}

pub fn swarm_for(rng: &mut Rng, fam: Fam, thorough: bool) -> Swarm {
    let all = all_types(fam);
    let types = if rng.chance(1, 3) {
        all.clone()
    } else {
        let mut t: Vec<u8> = all.iter().copied().filter(|_| rng.chance(1, 3)).collect();
        if t.is_empty() {
            t.push(*rng.pick(&all));
        }
        t
    };
    Swarm {
        fam,
        types,
        alphabet: rng.below(4) as u8,
        opt_p: *rng.pick(&[0u64, 4, 10, 10, 20]),
        max_user_props: if thorough { *rng.pick(&[0usize, 2, 6, 64]) } else { *rng.pick(&[0usize, 1, 3, 6]) },
        big_permil: *rng.pick(&[0u64, 0, 5, 20, 60]),
        max_frame: 2_097_152 + 16,
    }
    .shrink_if_tiny()
}

const BOUNDARY_CP: [u32; 14] = [0x7F, 0x80, 0x7FF, 0x800, 0xFFFF, 0x10000, 0x10FFFF, 0xD7FF, 0xE000, 0xFEFF, 0x100, 0x123, 0x12B, 0x1F600];

fn gen_char(rng: &mut Rng, alphabet: u8) -> char {
    let a = if alphabet == 3 { rng.below(3) as u8 } else { alphabet };
    match a {
        0 => (b'a' + rng.below(26) as u8) as char,
        1 => {
            let cp = match rng.below(4) {
                0 => rng.range(0x20, 0x7E) as u32,
                1 => rng.range(0x80, 0x7FF) as u32,
                2 => rng.range(0x800, 0xD7FF) as u32,
                _ => rng.range(0x10000, 0x10FFFF) as u32,
            };
            char::from_u32(cp).unwrap_or('x')
        }
        _ => char::from_u32(*rng.pick(&BOUNDARY_CP)).unwrap_or('y'),
    }
}

/// Draw a field length from the size classes of DESIGN §3.
pub fn gen_len(rng: &mut Rng, sw: &Swarm, max: usize) -> usize {
    let n = if rng.below(1000) < sw.big_permil {
        match rng.below(8) {
            0 => 65_535,
            1 => rng.urange(65_530, 65_535),
            2 | 3 => rng.urange(16_380, 16_388),
            _ => rng.urange(120, 135),
        }
    } else {
        match rng.below(12) {
            0 => 0,
            1 => 1,
            2 => rng.urange(120, 135),
            3 => rng.urange(13, 119),
            4 => {
                if rng.chance(1, 4) {
                    rng.urange(136, 600)
                } else {
                    rng.urange(13, 70)
                }
            }
            _ => rng.urange(2, 12),
        }
    };
    if tiny() {
        return n.min(16).min(max);
    }
    n.min(max)
}

/// Valid UTF-8 text of exactly `n` bytes (as close as char widths allow, never above), made of
/// characters for which `ok` holds.
pub fn gen_text_n(rng: &mut Rng, sw: &Swarm, n: usize, ok: &dyn Fn(char) -> bool) -> String {
    let mut s = String::with_capacity(n);
    if n > 512 {
        // long strings: one drawn unit repeated, so cost stays linear and small
        let mut unit = String::new();
        for _ in 0..rng.urange(1, 5) {
            let c = gen_char(rng, sw.alphabet);
            if ok(c) {
                unit.push(c);
            }
        }
        if unit.is_empty() {
            unit.push('k');
        }
        while s.len() + unit.len() <= n {
            s.push_str(&unit);
        }
        while s.len() < n {
            s.push('z');
        }
        return s;
    }
    let mut guard = 0;
    while s.len() < n && guard < n * 8 + 16 {
        guard += 1;
        let c = gen_char(rng, sw.alphabet);
        if ok(c) && s.len() + c.len_utf8() <= n {
            s.push(c);
        }
    }
    while s.len() < n {
        s.push('q');
    }
    s
}

/// Text with content that means something elsewhere in the protocol (all of it legal in an
/// ordinary UTF-8 string field).
const SPECIAL_TEXT: [&str; 25] = [
    "/", "+", "#", "$", "$share/g/t", "$SYS/x", "a/+/b", "a/#", "MQTT", "MQIsdp", "\u{0}", "a\u{0}b", "\u{feff}", "\u{feff}x", "\u{feff}\u{feff}x", "\t", "a\r\nb",
    "\u{1}", "\u{7f}", "\u{80}", "\u{fffd}", "\u{ffff}", " ", "\u{10ffff}", "\u{d7ff}\u{e000}",
];

pub fn gen_text(rng: &mut Rng, sw: &Swarm) -> Bs {
    if rng.chance(1, 24) {
        return Bs::s(SPECIAL_TEXT[rng.usize_below(SPECIAL_TEXT.len())]);
    }
    let n = gen_len(rng, sw, 65_535);
    Bs(gen_text_n(rng, sw, n, &|_| true).into_bytes())
}

pub fn gen_bin(rng: &mut Rng, sw: &Swarm) -> Bs {
    let n = gen_len(rng, sw, 65_535);
    gen_bin_n(rng, n)
}

pub fn gen_bin_n(rng: &mut Rng, n: usize) -> Bs {
    if n > 512 {
        let b = rng.u8();
        let mut v = vec![b; n];
        // a few distinct bytes so that offsets matter
        for _ in 0..8 {
            let i = rng.usize_below(n);
            v[i] = rng.u8();
        }
        Bs(v)
    } else {
        Bs(rng.bytes(n))
    }
}

/// Ordinary first levels that resemble `$share/` and `$SYS/` (all valid, unshared).
pub const NEAR_MISS: [&str; 14] = ["$sharex/", "$share", "$shar/", "$Share/", "$shared/", "$SYS", "$sys/", "$/", "$share$/", "$sharé/", "$queue/", "$queue", "$Queue/", "$local/"];

fn level_ok(c: char) -> bool {
    !matches!(c, '/' | '+' | '#' | '\0')
}

pub fn gen_topic_name(rng: &mut Rng, sw: &Swarm) -> Bs {
    let total = gen_len(rng, sw, 65_535);
    if total == 0 {
        // the library deliberately accepts the empty topic name (DESIGN S2)
        return Bs(vec![]);
    }
    let mut s = String::new();
    match rng.below(16) {
        0 => s.push_str("$SYS/"),
        1 => s.push_str("$share/"),
        2 => s.push('/'),
        3 => s.push_str(*rng.pick(&NEAR_MISS)),
        // text that other layers like to "normalise": byte order marks, control characters
        4 => s.push_str(*rng.pick(&["\u{feff}", "\u{feff}\u{feff}", "\t", "\u{7f}", "\u{85}", " "])),
        _ => {}
    }
    while s.len() < total {
        let want = (total - s.len()).min(rng.urange(1, 9).max(if total > 512 { total / 3 } else { 1 }));
        s.push_str(&gen_text_n(rng, sw, want, &level_ok));
        if s.len() < total && rng.chance(2, 3) {
            s.push('/');
        }
    }
    truncate_utf8(&mut s, 65_535);
    debug_assert!(spec::topic_name_ok(&s));
    Bs(s.into_bytes())
}

fn truncate_utf8(s: &mut String, max: usize) {
    if s.len() > max {
        let mut n = max;
        while !s.is_char_boundary(n) {
            n -= 1;
        }
        s.truncate(n);
    }
}

pub fn gen_topic_filter(rng: &mut Rng, sw: &Swarm) -> Bs {
    if rng.chance(1, 150) && !tiny() {
        // degenerate but valid shapes: only separators, only single-level wildcards, one huge level
        let n = *rng.pick(&[1usize, 2, 3, 255, 256, 257, 65_534, 65_535]);
        let s: String = match rng.below(4) {
            0 => "/".repeat(n),
            1 => {
                let mut t = "+/".repeat(n / 2);
                if n % 2 == 1 {
                    t.push('+');
                }
                t
            }
            2 => {
                let mut t = "/".repeat(n - 1);
                t.push('#');
                t
            }
            _ => "L".repeat(n),
        };
        if spec::topic_filter_ok(&s) {
            return Bs(s.into_bytes());
        }
    }
    let total = gen_len(rng, sw, 65_535).max(1);
    let mut s = String::new();
    let shared = rng.chance(1, 6);
    if shared {
        s.push_str("$share/");
        let n = rng.urange(1, 6);
        s.push_str(&gen_text_n(rng, sw, n, &level_ok));
        if s.len() == 7 {
            s.push('g');
        }
        s.push('/');
    } else if rng.chance(1, 12) {
        s.push_str("$SYS/");
    } else if rng.chance(1, 12) {
        // first levels that look almost like the special prefixes but are ordinary text
        s.push_str(*rng.pick(&NEAR_MISS));
    }
    let start = s.len();
    let mut first = true;
    loop {
        if !first {
            s.push('/');
        }
        first = false;
        match rng.below(10) {
            0 | 1 => s.push('+'),
            2 => {
                s.push('#');
                break;
            }
            3 => {} // empty level
            _ => {
                let left = total.saturating_sub(s.len()).max(1);
                let want = left.min(rng.urange(1, 9).max(if total > 512 { total / 3 } else { 1 }));
                s.push_str(&gen_text_n(rng, sw, want, &level_ok));
            }
        }
        if s.len() >= total || rng.chance(1, 4) {
            break;
        }
    }
    if s.len() == start {
        // "$share/g/" + nothing, or empty filter: make it a one-level filter
        s.push('t');
    }
    if s.len() > 65_535 || !spec::topic_filter_ok(&s) {
        s = if shared { "$share/g/t".to_string() } else { "t".to_string() };
    }
    Bs(s.into_bytes())
}

pub fn gen_pid(rng: &mut Rng) -> u16 {
    match rng.below(8) {
        0 => 1,
        1 => 65_535,
        2 => 256,
        3 => 255,
        _ => rng.range(1, 65_535) as u16,
    }
}

pub fn gen_u32(rng: &mut Rng) -> u32 {
    match rng.below(8) {
        0 => 0,
        1 => u32::MAX,
        2 => 1,
        3 => *rng.pick(&[255u32, 256, 65_535, 65_536, 0x00FF_FFFF, 0x0100_0000, 0x7FFF_FFFF, 0x8000_0000, 0x0000_FF00, 0xFF00_0000, 0x0102_0304, 268_435_455, 268_435_456]),
        _ => rng.u32(),
    }
}

pub fn gen_u16(rng: &mut Rng) -> u16 {
    match rng.below(8) {
        0 => 0,
        1 => u16::MAX,
        2 => *rng.pick(&[1u16, 127, 128, 255, 256, 0x00FF, 0xFF00, 0x0100, 0x7FFF, 0x8000, 0x0102, 60, 10]),
        _ => rng.u16(),
    }
}

pub fn gen_varint_value(rng: &mut Rng) -> u32 {
    match rng.below(12) {
        0 => 0,
        1 => 127,
        2 => 128,
        3 => 16_383,
        4 => 16_384,
        5 => 2_097_151,
        6 => 2_097_152,
        7 => spec::VARINT_MAX,
        _ => rng.range(1, u64::from(spec::VARINT_MAX)) as u32,
    }
}

pub fn gen_prop_value(rng: &mut Rng, sw: &Swarm, id: u8) -> PVal {
    match spec::prop_type(id).expect("known id") {
        PType::Byte => PVal::Byte(rng.below(2) as u8),
        PType::U16 => PVal::U16(gen_u16(rng)),
        PType::U32 => PVal::U32(gen_u32(rng)),
        PType::Var => PVal::Var(gen_varint_value(rng)),
        PType::Str => {
            if id == 0x08 {
                PVal::Str(gen_topic_name(rng, sw))
            } else {
                PVal::Str(gen_text(rng, sw))
            }
        }
        PType::Bin => PVal::Bin(gen_bin(rng, sw)),
        PType::Pair => {
            let k = gen_text(rng, sw);
            let v = match rng.below(12) {
                0 => k.clone(),
                1 => {
                    // one a prefix of the other
                    let mut x = k.0.clone();
                    if x.len() < 65_535 {
                        x.extend_from_slice(b"x");
                    }
                    Bs(x)
                }
                _ => gen_text(rng, sw),
            };
            PVal::Pair(k, v)
        }
    }
}

/// Valid property list for packet type `t` (0 = will), canonical order.
pub fn gen_props(rng: &mut Rng, sw: &Swarm, t: u8) -> Props {
    if !sw.fam.is_v5() {
        return vec![];
    }
    let mut p: Props = Vec::new();
    for id in spec::allowed_props(t) {
        if *id == 0x26 {
            continue;
        }
        if rng.below(20) < sw.opt_p {
            p.push((*id, gen_prop_value(rng, sw, *id)));
        }
    }
    if rng.chance(1, 600) && !tiny() {
        // long user-property lists with tiny strings (inner counters, 8-bit wrap-arounds)
        let n = *rng.pick(&[255usize, 256, 257]);
        for i in 0..n {
            p.push((0x26, PVal::Pair(Bs::s("k"), Bs(vec![b'a' + (i % 26) as u8]))));
        }
    } else if sw.max_user_props > 0 && rng.below(20) < sw.opt_p.max(3) {
        let n = if sw.max_user_props >= 64 && rng.chance(1, 8) {
            rng.urange(7, sw.max_user_props)
        } else {
            rng.urange(1, sw.max_user_props.min(6))
        };
        for _ in 0..n {
            p.push((0x26, gen_prop_value(rng, sw, 0x26)));
        }
    }
    canon_props(&mut p);
    p
}

fn opt(rng: &mut Rng, sw: &Swarm) -> bool {
    rng.below(20) < sw.opt_p
}

fn payload_for(rng: &mut Rng, sw: &Swarm, props: &Props) -> Bs {
    let utf8 = props.iter().any(|(id, v)| *id == 0x01 && *v == PVal::Byte(1));
    if utf8 {
        gen_text(rng, sw)
    } else {
        gen_bin(rng, sw)
    }
}

/// Safety net of the generator: no text or binary field may exceed the 65,535 bytes a two-byte
/// length prefix can express (a longer one would be outside every property's domain and would
/// make the harness, not the library, responsible for a disagreement).
pub fn clamp_domain(a: &mut Ast) {
    fn clamp(b: &mut Bs) {
        if b.0.len() > 65_535 {
            let mut n = 65_535;
            if let Ok(s) = std::str::from_utf8(&b.0) {
                while !s.is_char_boundary(n) {
                    n -= 1;
                }
            }
            b.0.truncate(n);
        }
    }
    fn clamp_props(p: &mut Props) {
        for (_, v) in p.iter_mut() {
            match v {
                PVal::Str(b) | PVal::Bin(b) => clamp(b),
                PVal::Pair(k, x) => {
                    clamp(k);
                    clamp(x);
                }
                _ => {}
            }
        }
    }
    if let Some(p) = a.props_mut() {
        clamp_props(p);
    }
    match a {
        Ast::Connect(c) => {
            clamp(&mut c.client_id);
            if let Some(u) = c.username.as_mut() {
                clamp(u);
            }
            if let Some(u) = c.password.as_mut() {
                clamp(u);
            }
            if let Some(w) = c.will.as_mut() {
                clamp_props(&mut w.props);
                clamp(&mut w.topic);
                clamp(&mut w.payload);
            }
        }
        Ast::Publish { topic, .. } => clamp(topic),
        Ast::Subscribe { topics, .. } => topics.iter_mut().for_each(|(f, _)| clamp(f)),
        Ast::Unsubscribe { topics, .. } => topics.iter_mut().for_each(clamp),
        _ => {}
    }
}

pub fn gen_packet_of(rng: &mut Rng, sw: &Swarm, t: u8) -> Ast {
    let mut a = gen_packet_raw(rng, sw, t);
    clamp_domain(&mut a);
    a
}

fn gen_packet_raw(rng: &mut Rng, sw: &Swarm, t: u8) -> Ast {
    let v5 = sw.fam.is_v5();
    match t {
        1 => {
            let will = if opt(rng, sw) {
                let props = gen_props(rng, sw, spec::WILL);
                let payload = payload_for(rng, sw, &props);
                Some(WillA {
                    qos: rng.below(3) as u8,
                    retain: rng.bool(),
                    props,
                    topic: gen_topic_name(rng, sw),
                    payload,
                })
            } else {
                None
            };
            Ast::Connect(Box::new(ConnectA {
                proto_name: Bs(sw.fam.proto_name().to_vec()),
                level: sw.fam.level(),
                clean: rng.bool(),
                keep_alive: gen_u16(rng),
                props: gen_props(rng, sw, 1),
                client_id: gen_text(rng, sw),
                will,
                username: if opt(rng, sw) { Some(gen_text(rng, sw)) } else { None },
                password: if opt(rng, sw) { Some(gen_bin(rng, sw)) } else { None },
            }))
        }
        2 => Ast::Connack {
            sp: rng.bool(),
            code: if v5 { *rng.pick(spec::reason_codes(2)) } else { *rng.pick(&spec::V3_CONNACK_CODES) },
            props: gen_props(rng, sw, 2),
        },
        3 => {
            let qos = rng.below(3) as u8;
            let props = gen_props(rng, sw, 3);
            let mut payload = payload_for(rng, sw, &props);
            let flagged = props.iter().any(|(id, v)| *id == 0x01 && *v == PVal::Byte(1));
            if (sw.big_permil > 0 && rng.chance(1, 200) || flagged && rng.chance(1, 60)) && !tiny() {
                // payload sizes that are exact powers of two (buffer / chunk boundaries)
                let (n, delta) = if flagged {
                    // text payloads that span at least one 64 KiB boundary
                    (*rng.pick(&[65_536usize, 65_537, 70_000, 131_072, 131_073]), 0)
                } else {
                    (1usize << rng.urange(10, 17), *rng.pick(&[0usize, 0, 0, 1]))
                };
                payload = Bs(vec![b'P'; n + delta]);
            }
            Ast::Publish {
                dup: rng.bool(),
                qos,
                retain: rng.bool(),
                topic: gen_topic_name(rng, sw),
                pid: if qos > 0 { Some(gen_pid(rng)) } else { None },
                props,
                payload,
            }
        }
        4..=7 => {
            let (code, props) = if v5 {
                (
                    if rng.chance(1, 2) { 0 } else { *rng.pick(spec::reason_codes(t)) },
                    gen_props(rng, sw, t),
                )
            } else {
                (0, vec![])
            };
            Ast::Ack { kind: t, pid: gen_pid(rng), code, props }
        }
        8 => {
            let n = if rng.chance(1, 400) && !tiny() { *rng.pick(&[255usize, 256, 257, 300]) } else { 1 + rng.small(5) };
            // long lists carry short filters (a 300 x 64 KiB SUBSCRIBE would only slow the sweeps)
            let small = Swarm { big_permil: 0, ..sw.clone() };
            let sw_f = if n > 8 { &small } else { sw };
            let mut topics: Vec<(Bs, u8)> = (0..n)
                .map(|_| {
                    let o = if v5 {
                        (rng.below(3) | (rng.below(2) << 2) | (rng.below(2) << 3) | (rng.below(3) << 4)) as u8
                    } else {
                        rng.below(3) as u8
                    };
                    (gen_topic_filter(rng, sw_f), o)
                })
                .collect();
            // the same filter named twice in one packet (adjacent or not), possibly with other options
            if rng.chance(1, 8) {
                let i = rng.usize_below(topics.len());
                let mut dup = topics[i].clone();
                if rng.bool() {
                    dup.1 = rng.below(3) as u8;
                }
                let at = if rng.bool() { i + 1 } else { topics.len() };
                topics.insert(at, dup);
            }
            Ast::Subscribe { pid: gen_pid(rng), props: gen_props(rng, sw, 8), topics }
        }
        9 => {
            let n = if rng.chance(1, 150) && !tiny() {
                *rng.pick(&[255usize, 256, 257, 1000, 65_535, 65_536, 65_537, 70_000])
            } else if rng.chance(1, 40) && !tiny() {
                // code lists that put the remaining length on either side of 127/128
                rng.urange(120, 131)
            } else {
                rng.small(6)
            };
            let codes = (0..n)
                .map(|_| if v5 { *rng.pick(spec::reason_codes(9)) } else { *rng.pick(&spec::V3_SUBACK_CODES) })
                .collect();
            Ast::Suback { pid: gen_pid(rng), props: gen_props(rng, sw, 9), codes }
        }
        10 => {
            let n = if rng.chance(1, 400) && !tiny() { *rng.pick(&[255usize, 256, 257, 300]) } else { 1 + rng.small(5) };
            let small = Swarm { big_permil: 0, ..sw.clone() };
            let sw_f = if n > 8 { &small } else { sw };
            let mut topics: Vec<Bs> = (0..n).map(|_| gen_topic_filter(rng, sw_f)).collect();
            if rng.chance(1, 8) {
                let i = rng.usize_below(topics.len());
                let dup = topics[i].clone();
                let at = if rng.bool() { i + 1 } else { topics.len() };
                topics.insert(at, dup);
            }
            Ast::Unsubscribe { pid: gen_pid(rng), props: gen_props(rng, sw, 10), topics }
        }
        11 => {
            let codes = if v5 {
                let n = if rng.chance(1, 150) && !tiny() {
                    *rng.pick(&[255usize, 256, 257, 65_535, 65_536, 65_537, 70_000])
                } else if rng.chance(1, 40) && !tiny() {
                    rng.urange(118, 131)
                } else {
                    rng.small(6)
                };
                (0..n).map(|_| *rng.pick(spec::reason_codes(11))).collect()
            } else {
                vec![]
            };
            Ast::Unsuback { pid: gen_pid(rng), props: gen_props(rng, sw, 11), codes }
        }
        12 => Ast::Pingreq,
        13 => Ast::Pingresp,
        14 => {
            if v5 {
                Ast::Disconnect {
                    code: if rng.chance(1, 3) { 0 } else { *rng.pick(spec::reason_codes(14)) },
                    props: gen_props(rng, sw, 14),
                }
            } else {
                Ast::Disconnect { code: 0, props: vec![] }
            }
        }
        15 => Ast::Auth {
            code: if rng.chance(1, 3) { 0 } else { *rng.pick(spec::reason_codes(15)) },
            props: gen_props(rng, sw, 15),
        },
        _ => unreachable!("type {t}"),
    }
}

pub fn gen_packet(rng: &mut Rng, sw: &Swarm) -> Ast {
    let t = *rng.pick(&sw.types);
    gen_packet_of(rng, sw, t)
}

/// Remaining-length targets that straddle the width boundaries of the variable byte integer.
pub const FRAME_TARGETS: [usize; 8] =
    [126, 127, 128, 16_383, 16_384, 16_385, 2_097_151, 2_097_152];

/// Adjust the payload of a PUBLISH (or the password of a CONNECT) so that the remaining length
/// lands exactly on `target`, if achievable. `cur` is the current remaining length.
pub fn retarget(rng: &mut Rng, a: &mut Ast, cur: usize, target: usize) -> bool {
    match a {
        Ast::Publish { payload, props, .. } => {
            let base = cur - payload.len();
            if target < base {
                return false;
            }
            let n = target - base;
            let utf8 = props.iter().any(|(id, v)| *id == 0x01 && *v == PVal::Byte(1));
            *payload = if utf8 { Bs(vec![b'p'; n]) } else { gen_bin_n(rng, n) };
            true
        }
        Ast::Connect(c) => {
            if let Some(pw) = c.password.as_mut() {
                let base = cur - pw.len();
                if target < base || target - base > 65_535 {
                    return false;
                }
                *pw = gen_bin_n(rng, target - base);
                true
            } else {
                false
            }
        }
        _ => false,
    }
}


/// Encoded size of one property (identifier + value).
pub fn prop_size(id: u8, v: &PVal) -> usize {
    let _ = id;
    1 + match v {
        PVal::Byte(_) => 1,
        PVal::U16(_) => 2,
        PVal::U32(_) => 4,
        PVal::Var(x) => spec::varint_len(*x),
        PVal::Str(b) | PVal::Bin(b) => 2 + b.len(),
        PVal::Pair(k, x) => 4 + k.len() + x.len(),
    }
}

/// Property-block sizes that straddle the width boundaries of the property-length field.
pub const PROP_TARGETS: [usize; 6] = [127, 128, 129, 16_383, 16_384, 16_385];

/// Add one user property so that the property block is exactly `target` bytes, if reachable.
pub fn retarget_props(p: &mut Props, target: usize) -> bool {
    let cur: usize = p.iter().map(|(id, v)| prop_size(*id, v)).sum();
    if target < cur + 5 {
        return false;
    }
    let fill = target - cur - 5;
    let (k, v) = if fill <= 65_535 { (0, fill) } else { (fill - 65_535, 65_535) };
    if k > 65_535 {
        return false;
    }
    p.push((0x26, PVal::Pair(Bs(vec![b'K'; k]), Bs(vec![b'V'; v]))));
    canon_props(p);
    true
}

/// With probability 1/`one_in`, pad a v5 packet's property block (or its will's) to a boundary.
pub fn maybe_retarget_props(rng: &mut Rng, fam: Fam, a: &mut Ast, one_in: u64) {
    if tiny() {
        return;
    }
    if !fam.is_v5() || !rng.chance(1, one_in) {
        return;
    }
    let t = *rng.pick(&PROP_TARGETS);
    if let Ast::Connect(c) = a {
        if let Some(w) = c.will.as_mut() {
            if rng.bool() {
                retarget_props(&mut w.props, t);
                return;
            }
        }
    }
    if let Some(p) = a.props_mut() {
        retarget_props(p, t);
    }
}

/// Move the boundary between two adjacent length-prefixed strings into the middle of a
/// multi-byte code point: both halves become invalid UTF-8 although their concatenation is
/// valid. Returns false if the packet has no suitable pair.
pub fn split_codepoint(a: &mut Ast) -> bool {
    fn split(k: &mut Bs, v: &mut Bs) -> bool {
        let Some(s) = k.as_str() else { return false };
        let Some(last) = s.chars().last() else { return false };
        let w = last.len_utf8();
        if w < 2 {
            return false;
        }
        let cut = k.len() - (w - 1); // keep the lead byte in k, move the continuation bytes
        let moved: Vec<u8> = k.0[cut..].to_vec();
        k.0.truncate(cut);
        let mut nv = moved;
        nv.extend_from_slice(&v.0);
        if nv.len() > 65_535 {
            return false;
        }
        v.0 = nv;
        true
    }
    if let Some(p) = a.props_mut() {
        for (id, v) in p.iter_mut() {
            if *id == 0x26 {
                if let PVal::Pair(k, x) = v {
                    if split(k, x) {
                        return true;
                    }
                }
            }
        }
    }
    if let Ast::Connect(c) = a {
        if let (Some(u), Some(pw)) = (c.username.as_mut(), c.password.as_mut()) {
            if split(u, pw) {
                return true;
            }
        }
        if let Some(w) = c.will.as_mut() {
            for (id, v) in w.props.iter_mut() {
                if *id == 0x26 {
                    if let PVal::Pair(k, x) = v {
                        if split(k, x) {
                            return true;
                        }
                    }
                }
            }
        }
    }
    false
}
