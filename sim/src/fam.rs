//! One trait over the two codec families of the library so that scenarios are written once.
//! Everything in the impls is a direct call into mqtt-proto's public API.

use std::fmt::Debug;
use std::future::Future;
use std::io;

use mqtt_proto::{v3, v5, Encodable, PollHeader, VarBytes};
use tokio::io::{AsyncRead, AsyncWrite};

use crate::ast::Ast;
use crate::bridge;
use crate::sim::SimSink;

/// Normalised view of a library error.
#[derive(Clone, Debug, PartialEq, Eq)]
pub struct NErr {
    /// variant with payload, I/O errors rendered by kind only, `Common(..)` unwrapped
    pub text: String,
    pub io_kind: Option<io::ErrorKind>,
    pub io_msg: Option<String>,
    /// what the library's own `is_eof()` says
    pub eof: bool,
}

pub fn norm_v3(e: &mqtt_proto::Error) -> NErr {
    match e {
        mqtt_proto::Error::IoError(k, m) => NErr {
            text: format!("IoError({k:?})"),
            io_kind: Some(*k),
            io_msg: Some(m.clone()),
            eof: e.is_eof(),
        },
        other => NErr { text: format!("{other:?}"), io_kind: None, io_msg: None, eof: e.is_eof() },
    }
}

pub fn norm_v5(e: &v5::ErrorV5) -> NErr {
    match e {
        v5::ErrorV5::Common(c) => {
            let mut n = norm_v3(c);
            n.eof = e.is_eof();
            n
        }
        other => NErr { text: format!("{other:?}"), io_kind: None, io_msg: None, eof: e.is_eof() },
    }
}

/// Object-safe view of `Encodable`.
pub trait DynEnc {
    fn enc_sink(&self, w: &mut SimSink) -> io::Result<()>;
    fn enc_vec(&self, w: &mut Vec<u8>) -> io::Result<()>;
    fn len(&self) -> usize;
}

impl<T: Encodable> DynEnc for T {
    fn enc_sink(&self, w: &mut SimSink) -> io::Result<()> {
        self.encode(w)
    }
    fn enc_vec(&self, w: &mut Vec<u8>) -> io::Result<()> {
        self.encode(w)
    }
    fn len(&self) -> usize {
        self.encode_len()
    }
}

pub struct Part<'a> {
    pub name: &'static str,
    pub enc: &'a dyn DynEnc,
    /// true when this part is the whole packet body (what follows the fixed header)
    pub is_body: bool,
}

#[derive(Clone, Debug, PartialEq, Eq)]
pub struct HeaderView {
    pub typ: String,
    pub dup: bool,
    pub qos: u8,
    pub retain: bool,
    pub remaining_len: u32,
}

pub trait Codec: 'static {
    type Packet: Clone + PartialEq + Debug;
    type Err: Clone + PartialEq + Debug + From<io::Error> + From<mqtt_proto::Error>;
    type Header: PollHeader<Error = Self::Err, Packet = Self::Packet> + Copy + Unpin + Debug + PartialEq;
    const V5: bool;
    const NAME: &'static str;

    fn from_ast(a: &Ast) -> Option<Self::Packet>;
    fn to_ast(p: &Self::Packet) -> Ast;
    fn decode(b: &[u8]) -> Result<Option<Self::Packet>, Self::Err>;
    fn decode_async<'a, R: AsyncRead + Unpin>(
        r: &'a mut R,
    ) -> impl Future<Output = Result<Self::Packet, Self::Err>> + 'a;
    fn encode(p: &Self::Packet) -> Result<VarBytes, mqtt_proto::Error>;
    fn encode_len(p: &Self::Packet) -> Result<usize, Self::Err>;
    fn encode_async<'a, W: AsyncWrite + Unpin>(
        p: &'a Self::Packet,
        w: &'a mut W,
    ) -> impl Future<Output = Result<(), Self::Err>> + 'a;
    fn header_decode(b: &[u8]) -> Result<Self::Header, Self::Err>;
    fn header_decode_async<'a, R: AsyncRead + Unpin>(
        r: &'a mut R,
    ) -> impl Future<Output = Result<Self::Header, Self::Err>> + 'a;
    fn header_view(h: &Self::Header) -> HeaderView;
    fn norm(e: &Self::Err) -> NErr;
    fn parts(p: &Self::Packet) -> Vec<Part<'_>>;
    fn to_io(e: Self::Err) -> Option<io::Error>;
    /// C12: violated type invariants of a decoded packet (empty = fine)
    fn invariants(p: &Self::Packet) -> Vec<String>;
}

pub struct V3;
pub struct V5;

impl Codec for V3 {
    type Packet = v3::Packet;
    type Err = mqtt_proto::Error;
    type Header = v3::Header;
    const V5: bool = false;
    const NAME: &'static str = "v3";

    fn from_ast(a: &Ast) -> Option<v3::Packet> {
        bridge::v3_from_ast(a)
    }
    fn to_ast(p: &v3::Packet) -> Ast {
        bridge::v3_to_ast(p)
    }
    fn decode(b: &[u8]) -> Result<Option<v3::Packet>, Self::Err> {
        v3::Packet::decode(b)
    }
    fn decode_async<'a, R: AsyncRead + Unpin>(
        r: &'a mut R,
    ) -> impl Future<Output = Result<v3::Packet, Self::Err>> + 'a {
        v3::Packet::decode_async(r)
    }
    fn encode(p: &v3::Packet) -> Result<VarBytes, mqtt_proto::Error> {
        p.encode()
    }
    fn encode_len(p: &v3::Packet) -> Result<usize, Self::Err> {
        p.encode_len()
    }
    fn encode_async<'a, W: AsyncWrite + Unpin>(
        p: &'a v3::Packet,
        w: &'a mut W,
    ) -> impl Future<Output = Result<(), Self::Err>> + 'a {
        p.encode_async(w)
    }
    fn header_decode(b: &[u8]) -> Result<v3::Header, Self::Err> {
        v3::Header::decode(b)
    }
    fn header_decode_async<'a, R: AsyncRead + Unpin>(
        r: &'a mut R,
    ) -> impl Future<Output = Result<v3::Header, Self::Err>> + 'a {
        v3::Header::decode_async(r)
    }
    fn header_view(h: &v3::Header) -> HeaderView {
        HeaderView {
            typ: format!("{:?}", h.typ),
            dup: h.dup,
            qos: bridge::qos_to(h.qos),
            retain: h.retain,
            remaining_len: h.remaining_len,
        }
    }
    fn norm(e: &Self::Err) -> NErr {
        norm_v3(e)
    }
    fn parts(p: &v3::Packet) -> Vec<Part<'_>> {
        let mut v: Vec<Part<'_>> = Vec::new();
        match p {
            v3::Packet::Connect(c) => {
                v.push(Part { name: "Connect", enc: c, is_body: true });
                v.push(Part { name: "Protocol", enc: &c.protocol, is_body: false });
                if let Some(w) = c.last_will.as_ref() {
                    v.push(Part { name: "LastWill", enc: w, is_body: false });
                }
            }
            v3::Packet::Publish(x) => v.push(Part { name: "Publish", enc: x, is_body: true }),
            v3::Packet::Subscribe(x) => v.push(Part { name: "Subscribe", enc: x, is_body: true }),
            v3::Packet::Suback(x) => v.push(Part { name: "Suback", enc: x, is_body: true }),
            v3::Packet::Unsubscribe(x) => v.push(Part { name: "Unsubscribe", enc: x, is_body: true }),
            _ => {}
        }
        v
    }
    fn to_io(e: Self::Err) -> Option<io::Error> {
        Some(e.into())
    }
    fn invariants(p: &v3::Packet) -> Vec<String> {
        crate::inv::v3(p)
    }
}

impl Codec for V5 {
    type Packet = v5::Packet;
    type Err = v5::ErrorV5;
    type Header = v5::Header;
    const V5: bool = true;
    const NAME: &'static str = "v5";

    fn from_ast(a: &Ast) -> Option<v5::Packet> {
        bridge::v5_from_ast(a)
    }
    fn to_ast(p: &v5::Packet) -> Ast {
        bridge::v5_to_ast(p)
    }
    fn decode(b: &[u8]) -> Result<Option<v5::Packet>, Self::Err> {
        v5::Packet::decode(b)
    }
    fn decode_async<'a, R: AsyncRead + Unpin>(
        r: &'a mut R,
    ) -> impl Future<Output = Result<v5::Packet, Self::Err>> + 'a {
        v5::Packet::decode_async(r)
    }
    fn encode(p: &v5::Packet) -> Result<VarBytes, mqtt_proto::Error> {
        p.encode()
    }
    fn encode_len(p: &v5::Packet) -> Result<usize, Self::Err> {
        p.encode_len()
    }
    fn encode_async<'a, W: AsyncWrite + Unpin>(
        p: &'a v5::Packet,
        w: &'a mut W,
    ) -> impl Future<Output = Result<(), Self::Err>> + 'a {
        p.encode_async(w)
    }
    fn header_decode(b: &[u8]) -> Result<v5::Header, Self::Err> {
        v5::Header::decode(b)
    }
    fn header_decode_async<'a, R: AsyncRead + Unpin>(
        r: &'a mut R,
    ) -> impl Future<Output = Result<v5::Header, Self::Err>> + 'a {
        v5::Header::decode_async(r)
    }
    fn header_view(h: &v5::Header) -> HeaderView {
        HeaderView {
            typ: format!("{:?}", h.typ),
            dup: h.dup,
            qos: bridge::qos_to(h.qos),
            retain: h.retain,
            remaining_len: h.remaining_len,
        }
    }
    fn norm(e: &Self::Err) -> NErr {
        norm_v5(e)
    }
    fn parts(p: &v5::Packet) -> Vec<Part<'_>> {
        let mut v: Vec<Part<'_>> = Vec::new();
        match p {
            v5::Packet::Connect(c) => {
                v.push(Part { name: "Connect", enc: c, is_body: true });
                v.push(Part { name: "Protocol", enc: &c.protocol, is_body: false });
                v.push(Part { name: "ConnectProperties", enc: &c.properties, is_body: false });
                if let Some(w) = c.last_will.as_ref() {
                    v.push(Part { name: "LastWill", enc: w, is_body: false });
                    v.push(Part { name: "WillProperties", enc: &w.properties, is_body: false });
                }
            }
            v5::Packet::Connack(x) => {
                v.push(Part { name: "Connack", enc: x, is_body: true });
                v.push(Part { name: "ConnackProperties", enc: &x.properties, is_body: false });
            }
            v5::Packet::Publish(x) => {
                v.push(Part { name: "Publish", enc: x, is_body: true });
                v.push(Part { name: "PublishProperties", enc: &x.properties, is_body: false });
            }
            v5::Packet::Puback(x) => {
                v.push(Part { name: "Puback", enc: x, is_body: true });
                v.push(Part { name: "PubackProperties", enc: &x.properties, is_body: false });
            }
            v5::Packet::Pubrec(x) => {
                v.push(Part { name: "Pubrec", enc: x, is_body: true });
                v.push(Part { name: "PubrecProperties", enc: &x.properties, is_body: false });
            }
            v5::Packet::Pubrel(x) => {
                v.push(Part { name: "Pubrel", enc: x, is_body: true });
                v.push(Part { name: "PubrelProperties", enc: &x.properties, is_body: false });
            }
            v5::Packet::Pubcomp(x) => {
                v.push(Part { name: "Pubcomp", enc: x, is_body: true });
                v.push(Part { name: "PubcompProperties", enc: &x.properties, is_body: false });
            }
            v5::Packet::Subscribe(x) => {
                v.push(Part { name: "Subscribe", enc: x, is_body: true });
                v.push(Part { name: "SubscribeProperties", enc: &x.properties, is_body: false });
            }
            v5::Packet::Suback(x) => {
                v.push(Part { name: "Suback", enc: x, is_body: true });
                v.push(Part { name: "SubackProperties", enc: &x.properties, is_body: false });
            }
            v5::Packet::Unsubscribe(x) => {
                v.push(Part { name: "Unsubscribe", enc: x, is_body: true });
                v.push(Part { name: "UnsubscribeProperties", enc: &x.properties, is_body: false });
            }
            v5::Packet::Unsuback(x) => {
                v.push(Part { name: "Unsuback", enc: x, is_body: true });
                v.push(Part { name: "UnsubackProperties", enc: &x.properties, is_body: false });
            }
            v5::Packet::Disconnect(x) => {
                v.push(Part { name: "Disconnect", enc: x, is_body: true });
                v.push(Part { name: "DisconnectProperties", enc: &x.properties, is_body: false });
            }
            v5::Packet::Auth(x) => {
                v.push(Part { name: "Auth", enc: x, is_body: true });
                v.push(Part { name: "AuthProperties", enc: &x.properties, is_body: false });
            }
            v5::Packet::Pingreq | v5::Packet::Pingresp => {}
        }
        v
    }
    fn to_io(_e: Self::Err) -> Option<io::Error> {
        // ErrorV5 has no conversion to io::Error in the public API
        None
    }
    fn invariants(p: &v5::Packet) -> Vec<String> {
        crate::inv::v5(p)
    }
}
