//! Decoder front-ends driven by the simulator: B (blocking, slice), A (async over SimReader),
//! P (poll-based over SimReader with caller-held state and optional cancellation).

use std::cell::RefCell;
use std::mem::MaybeUninit;
use std::panic::{catch_unwind, AssertUnwindSafe};
use std::pin::Pin;
use std::rc::Rc;
use std::task::Poll;

use mqtt_proto::{GenericPollPacket, GenericPollPacketState};
use serde::{Deserialize, Serialize};

use crate::fam::Codec;
use crate::sim::{CoreRef, Exec, ReadEv, SimReader, Stuck, SPIN_MARK};

#[derive(Clone, Copy, PartialEq, Eq, Debug, Serialize, Deserialize, Hash, PartialOrd, Ord)]
pub enum Front {
    B,
    A,
    P,
}

thread_local! {
    static LAST_PANIC: RefCell<Option<String>> = const { RefCell::new(None) };
    static GUARD_DEPTH: std::cell::Cell<u32> = const { std::cell::Cell::new(0) };
}

pub fn install_panic_hook() {
    std::panic::set_hook(Box::new(|info| {
        let msg = if let Some(s) = info.payload().downcast_ref::<&str>() {
            (*s).to_string()
        } else if let Some(s) = info.payload().downcast_ref::<String>() {
            s.clone()
        } else {
            "non-string panic".to_string()
        };
        let loc = info.location().map(|l| format!(" at {}:{}", l.file(), l.line())).unwrap_or_default();
        if GUARD_DEPTH.with(|d| d.get()) == 0 {
            // not inside a guarded library call: a bug in the harness itself, make it loud
            eprintln!("harness panic: {msg}{loc}");
        }
        LAST_PANIC.with(|p| *p.borrow_mut() = Some(format!("{msg}{loc}")));
    }));
}

/// Run `f`, turning a panic into Err(message).
pub fn guarded<T>(f: impl FnOnce() -> T) -> Result<T, String> {
    GUARD_DEPTH.with(|d| d.set(d.get() + 1));
    let r = catch_unwind(AssertUnwindSafe(f));
    GUARD_DEPTH.with(|d| d.set(d.get() - 1));
    match r {
        Ok(v) => Ok(v),
        Err(_) => Err(LAST_PANIC.with(|p| p.borrow_mut().take()).unwrap_or_else(|| "panic".into())),
    }
}

/// Outcome of one decode attempt by one front-end.
#[derive(Clone, Debug, PartialEq)]
pub enum Fe<P, E> {
    Ok {
        pkt: P,
        /// bytes taken from the transport (reader position; for B: not known, None)
        consumed: Option<usize>,
        /// P only: the total the decoder reports, and the raw body it hands back
        total: Option<usize>,
        body: Option<Vec<u8>>,
    },
    /// B only: Ok(None)
    Incomplete,
    Err { e: E, consumed: Option<usize> },
    Panic(String),
    /// no progress: poll cap exceeded or reader polled again and again after EOF
    Stuck(String),
}

impl<P, E> Fe<P, E> {
    pub fn kind(&self) -> &'static str {
        match self {
            Fe::Ok { .. } => "Ok",
            Fe::Incomplete => "Incomplete",
            Fe::Err { .. } => "Err",
            Fe::Panic(_) => "Panic",
            Fe::Stuck(_) => "Stuck",
        }
    }
    pub fn pkt(&self) -> Option<&P> {
        match self {
            Fe::Ok { pkt, .. } => Some(pkt),
            _ => None,
        }
    }
    pub fn err(&self) -> Option<&E> {
        match self {
            Fe::Err { e, .. } => Some(e),
            _ => None,
        }
    }
}

fn from_panic<P, E>(msg: String) -> Fe<P, E> {
    if msg.contains("SIM-SPIN") {
        Fe::Stuck(SPIN_MARK.to_string())
    } else {
        Fe::Panic(msg)
    }
}

pub fn poll_cap(bytes: usize, script: &[ReadEv]) -> u32 {
    (4 * (bytes + script.len()) + 64).min(u32::MAX as usize) as u32
}

/// B: `Packet::decode(&bytes)`.
pub fn fe_block<C: Codec>(bytes: &[u8]) -> Fe<C::Packet, C::Err> {
    crate::runner::beat();
    match guarded(|| C::decode(bytes)) {
        Ok(Ok(Some(pkt))) => Fe::Ok { pkt, consumed: None, total: None, body: None },
        Ok(Ok(None)) => Fe::Incomplete,
        Ok(Err(e)) => Fe::Err { e, consumed: None },
        Err(m) => from_panic(m),
    }
}

/// A: `Packet::decode_async(&mut reader)` under the executor. The reader is left positioned
/// where the decoder stopped.
pub fn fe_async<C: Codec>(core: &CoreRef, reader: &mut SimReader, cap: u32) -> Fe<C::Packet, C::Err> {
    let r = guarded(|| {
        let mut ex = Exec::new(core, cap);
        let mut fut = Box::pin(C::decode_async(reader));
        ex.run(fut.as_mut())
    });
    let pos = reader.pos;
    match r {
        Ok(Ok(Ok(pkt))) => Fe::Ok { pkt, consumed: Some(pos), total: None, body: None },
        Ok(Ok(Err(e))) => Fe::Err { e, consumed: Some(pos) },
        Ok(Err(Stuck::PollCap)) => Fe::Stuck("poll cap exceeded".into()),
        Err(m) => from_panic(m),
    }
}

/// Observer called between polls of the P front-end with the caller-held state.
pub type StateObs<'a, C> = &'a mut dyn FnMut(&GenericPollPacketState<<C as Codec>::Header>, usize);

/// P: `PollPacket::new(&mut state, &mut reader)`. `cancel[i]` says whether the future is dropped
/// and re-created after its i-th Pending.
pub fn fe_poll<C: Codec>(
    core: &CoreRef,
    state: &mut GenericPollPacketState<C::Header>,
    reader: &mut SimReader,
    cancel: &[bool],
    cap: u32,
    mut obs: Option<StateObs<'_, C>>,
) -> Fe<C::Packet, C::Err> {
    let start = reader.pos;
    let r = guarded(|| {
        let mut ex = Exec::new(core, cap);
        let mut pendings = 0usize;
        'outer: loop {
            let mut fut = GenericPollPacket::new(&mut *state, &mut *reader);
            loop {
                match ex.poll_once(Pin::new(&mut fut)) {
                    Err(s) => return Err(s),
                    Ok(Poll::Ready(x)) => return Ok(x),
                    Ok(Poll::Pending) => {
                        let do_cancel = cancel.get(pendings).copied().unwrap_or(false);
                        pendings += 1;
                        if do_cancel || obs.is_some() {
                            #[allow(clippy::drop_non_drop)]
                            drop(fut);
                            if let Some(o) = obs.as_mut() {
                                o(state, reader.pos);
                            }
                            if do_cancel {
                                ex.note_cancel();
                            }
                            ex.wait();
                            continue 'outer;
                        }
                        ex.wait();
                    }
                }
            }
        }
    });
    let pos = reader.pos;
    match r {
        Ok(Ok(Ok((total, buf, pkt)))) => {
            let body = uninit_to_vec(buf);
            Fe::Ok { pkt, consumed: Some(pos - start), total: Some(total), body: Some(body) }
        }
        Ok(Ok(Err(e))) => Fe::Err { e, consumed: Some(pos - start) },
        Ok(Err(Stuck::PollCap)) => Fe::Stuck("poll cap exceeded".into()),
        Err(m) => from_panic(m),
    }
}

/// The decoder hands the body back as `Vec<MaybeUninit<u8>>`, documented as fully received.
/// Reading it is exactly what a caller does; under Miri an unfilled byte is reported here.
pub fn uninit_to_vec(buf: Vec<MaybeUninit<u8>>) -> Vec<u8> {
    buf.into_iter().map(|b| unsafe { b.assume_init() }).collect()
}

/// Convenience: decode one packet from `data` with front-end `f` under the given schedule.
/// Returns the outcome and the final reader position (for A/P).
pub fn decode_one<C: Codec>(
    core: &CoreRef,
    f: Front,
    data: &Rc<Vec<u8>>,
    script: &[ReadEv],
    cancel: &[bool],
    faults: &[(usize, u8)],
) -> Fe<C::Packet, C::Err> {
    match f {
        Front::B => fe_block::<C>(data),
        Front::A => {
            let mut rd = SimReader::new(core, data.clone(), script.to_vec()).with_faults(faults);
            fe_async::<C>(core, &mut rd, poll_cap(data.len(), script))
        }
        Front::P => {
            let mut rd = SimReader::new(core, data.clone(), script.to_vec()).with_faults(faults);
            let mut st = GenericPollPacketState::<C::Header>::default();
            fe_poll::<C>(core, &mut st, &mut rd, cancel, poll_cap(data.len(), script), None)
        }
    }
}


/// Debug-format a value that came out of the library. A packet that breaks its own type
/// invariants (e.g. a String holding invalid UTF-8) can make `Debug` itself panic.
pub fn safe_debug<T: std::fmt::Debug>(v: &T) -> String {
    guarded(|| format!("{v:?}")).unwrap_or_else(|m| format!("<Debug of this value panicked: {m}>"))
}
