//! Delta-debugging minimiser over a `Case`: keeps a candidate only if the same violation
//! signature persists. Fixed point or a candidate budget, whichever comes first.

use crate::ast::*;
use crate::case::*;
use crate::sim::{ReadEv, WakeP, WriteEv};

fn shrink_bs(b: &Bs) -> Vec<Bs> {
    let mut v = Vec::new();
    let n = b.len();
    if n == 0 {
        return v;
    }
    v.push(Bs(vec![]));
    if n > 1 {
        v.push(Bs(b.0[..n / 2].to_vec()));
        v.push(Bs(b.0[..n - 1].to_vec()));
    }
    if b.0.iter().any(|c| *c != b'a') && n <= 64 {
        v.push(Bs(vec![b'a'; n]));
    }
    v
}

fn shrink_props(p: &Props) -> Vec<Props> {
    let mut v = Vec::new();
    if p.is_empty() {
        return v;
    }
    v.push(vec![]);
    for i in 0..p.len() {
        let mut q = p.clone();
        q.remove(i);
        v.push(q);
    }
    for i in 0..p.len() {
        let alts: Vec<PVal> = match &p[i].1 {
            PVal::Str(b) => shrink_bs(b).into_iter().map(PVal::Str).collect(),
            PVal::Bin(b) => shrink_bs(b).into_iter().map(PVal::Bin).collect(),
            PVal::Pair(k, x) => {
                let mut a: Vec<PVal> = shrink_bs(k).into_iter().map(|k2| PVal::Pair(k2, x.clone())).collect();
                a.extend(shrink_bs(x).into_iter().map(|x2| PVal::Pair(k.clone(), x2)));
                a
            }
            PVal::U32(x) if *x != 0 => vec![PVal::U32(0)],
            PVal::U16(x) if *x != 0 => vec![PVal::U16(0)],
            PVal::Var(x) if *x != 0 => vec![PVal::Var(0), PVal::Var(1)],
            _ => vec![],
        };
        for a in alts {
            let mut q = p.clone();
            q[i].1 = a;
            v.push(q);
        }
    }
    v
}

fn shrink_ast(a: &Ast) -> Vec<Ast> {
    let mut v: Vec<Ast> = Vec::new();
    // properties
    if let Some(p) = a.props() {
        for q in shrink_props(p) {
            let mut b = a.clone();
            *b.props_mut().unwrap() = q;
            v.push(b);
        }
    }
    match a {
        Ast::Connect(c) => {
            let mut push = |f: &dyn Fn(&mut ConnectA)| {
                let mut d = (**c).clone();
                f(&mut d);
                v.push(Ast::Connect(Box::new(d)));
            };
            if c.will.is_some() {
                push(&|d| d.will = None);
            }
            if c.username.is_some() {
                push(&|d| d.username = None);
            }
            if c.password.is_some() {
                push(&|d| d.password = None);
            }
            if c.keep_alive != 0 {
                push(&|d| d.keep_alive = 0);
            }
            if c.clean {
                push(&|d| d.clean = false);
            }
            for s in shrink_bs(&c.client_id) {
                push(&|d| d.client_id = s.clone());
            }
            if let Some(u) = &c.username {
                for s in shrink_bs(u) {
                    push(&|d| d.username = Some(s.clone()));
                }
            }
            if let Some(u) = &c.password {
                for s in shrink_bs(u) {
                    push(&|d| d.password = Some(s.clone()));
                }
            }
            if let Some(w) = &c.will {
                for q in shrink_props(&w.props) {
                    push(&|d| d.will.as_mut().unwrap().props = q.clone());
                }
                for s in shrink_bs(&w.topic) {
                    push(&|d| d.will.as_mut().unwrap().topic = s.clone());
                }
                for s in shrink_bs(&w.payload) {
                    push(&|d| d.will.as_mut().unwrap().payload = s.clone());
                }
                if w.qos != 0 {
                    push(&|d| d.will.as_mut().unwrap().qos = 0);
                }
                if w.retain {
                    push(&|d| d.will.as_mut().unwrap().retain = false);
                }
            }
        }
        Ast::Connack { sp, code, props } => {
            if *sp {
                v.push(Ast::Connack { sp: false, code: *code, props: props.clone() });
            }
            if *code != 0 {
                v.push(Ast::Connack { sp: *sp, code: 0, props: props.clone() });
            }
        }
        Ast::Publish { dup, qos, retain, topic, pid, props, payload } => {
            for s in shrink_bs(payload) {
                v.push(Ast::Publish { dup: *dup, qos: *qos, retain: *retain, topic: topic.clone(), pid: *pid, props: props.clone(), payload: s });
            }
            for s in shrink_bs(topic) {
                v.push(Ast::Publish { dup: *dup, qos: *qos, retain: *retain, topic: s, pid: *pid, props: props.clone(), payload: payload.clone() });
            }
            if *qos != 0 {
                v.push(Ast::Publish { dup: *dup, qos: 0, retain: *retain, topic: topic.clone(), pid: None, props: props.clone(), payload: payload.clone() });
            }
            if *dup || *retain {
                v.push(Ast::Publish { dup: false, qos: *qos, retain: false, topic: topic.clone(), pid: *pid, props: props.clone(), payload: payload.clone() });
            }
            if let Some(p) = pid {
                if *p != 1 {
                    v.push(Ast::Publish { dup: *dup, qos: *qos, retain: *retain, topic: topic.clone(), pid: Some(1), props: props.clone(), payload: payload.clone() });
                }
            }
        }
        Ast::Ack { kind, pid, code, props } => {
            if *code != 0 {
                v.push(Ast::Ack { kind: *kind, pid: *pid, code: 0, props: props.clone() });
            }
            if *pid != 1 {
                v.push(Ast::Ack { kind: *kind, pid: 1, code: *code, props: props.clone() });
            }
        }
        Ast::Subscribe { pid, props, topics } => {
            if topics.len() > 1 {
                for i in 0..topics.len() {
                    let mut t = topics.clone();
                    t.remove(i);
                    v.push(Ast::Subscribe { pid: *pid, props: props.clone(), topics: t });
                }
            }
            for i in 0..topics.len() {
                for s in shrink_bs(&topics[i].0) {
                    let mut t = topics.clone();
                    t[i].0 = s;
                    v.push(Ast::Subscribe { pid: *pid, props: props.clone(), topics: t });
                }
                if topics[i].1 != 0 {
                    let mut t = topics.clone();
                    t[i].1 = 0;
                    v.push(Ast::Subscribe { pid: *pid, props: props.clone(), topics: t });
                }
            }
            if *pid != 1 {
                v.push(Ast::Subscribe { pid: 1, props: props.clone(), topics: topics.clone() });
            }
        }
        Ast::Unsubscribe { pid, props, topics } => {
            if topics.len() > 1 {
                for i in 0..topics.len() {
                    let mut t = topics.clone();
                    t.remove(i);
                    v.push(Ast::Unsubscribe { pid: *pid, props: props.clone(), topics: t });
                }
            }
            for i in 0..topics.len() {
                for s in shrink_bs(&topics[i]) {
                    let mut t = topics.clone();
                    t[i] = s;
                    v.push(Ast::Unsubscribe { pid: *pid, props: props.clone(), topics: t });
                }
            }
            if *pid != 1 {
                v.push(Ast::Unsubscribe { pid: 1, props: props.clone(), topics: topics.clone() });
            }
        }
        Ast::Suback { pid, props, codes } | Ast::Unsuback { pid, props, codes } => {
            let mk = |pid: u16, props: Props, codes: Vec<u8>| {
                if matches!(a, Ast::Suback { .. }) {
                    Ast::Suback { pid, props, codes }
                } else {
                    Ast::Unsuback { pid, props, codes }
                }
            };
            for i in 0..codes.len() {
                let mut t = codes.clone();
                t.remove(i);
                v.push(mk(*pid, props.clone(), t));
                if codes[i] != 0 {
                    let mut t = codes.clone();
                    t[i] = 0;
                    v.push(mk(*pid, props.clone(), t));
                }
            }
            if *pid != 1 {
                v.push(mk(1, props.clone(), codes.clone()));
            }
        }
        Ast::Disconnect { code, props } => {
            if *code != 0 {
                v.push(Ast::Disconnect { code: 0, props: props.clone() });
            }
        }
        Ast::Auth { code, props } => {
            if *code != 0 {
                v.push(Ast::Auth { code: 0, props: props.clone() });
            }
        }
        Ast::Pingreq | Ast::Pingresp => {}
    }
    v
}

fn candidates(c: &Case) -> Vec<Case> {
    let mut v: Vec<Case> = Vec::new();
    let mut push = |f: &dyn Fn(&mut Case)| {
        let mut d = c.clone();
        f(&mut d);
        if d != *c {
            v.push(d);
        }
    };
    // drop packets
    if c.packets.len() > 1 {
        for i in 0..c.packets.len() {
            push(&|d| {
                d.packets.remove(i);
            });
        }
    }
    // faults, mutations
    for i in 0..c.mutations.len() {
        push(&|d| {
            d.mutations.remove(i);
        });
    }
    for i in 0..c.read_faults.len() {
        push(&|d| {
            d.read_faults.remove(i);
        });
    }
    for i in 0..c.write_faults.len() {
        push(&|d| {
            d.write_faults.remove(i);
        });
    }
    // schedule
    if !c.read_script.is_empty() {
        push(&|d| d.read_script.clear());
        push(&|d| d.read_script.truncate(d.read_script.len() / 2));
        if c.read_script.len() <= 40 {
            for i in 0..c.read_script.len() {
                push(&|d| {
                    d.read_script.remove(i);
                });
            }
        }
        for i in 0..c.read_script.len().min(40) {
            if let ReadEv::Pending(w) = c.read_script[i] {
                if w != WakeP::Now {
                    push(&|d| d.read_script[i] = ReadEv::Pending(WakeP::Now));
                }
            }
        }
        // merge adjacent chunks
        for i in 0..c.read_script.len().saturating_sub(1).min(40) {
            if let (ReadEv::Chunk(a), ReadEv::Chunk(b)) = (c.read_script[i], c.read_script[i + 1]) {
                push(&|d| {
                    d.read_script[i] = ReadEv::Chunk(a.saturating_add(b));
                    d.read_script.remove(i + 1);
                });
            }
        }
    }
    if c.read_tail != 0 {
        push(&|d| d.read_tail = 0);
    }
    if c.cancel.iter().any(|x| *x) {
        push(&|d| d.cancel.clear());
        for i in 0..c.cancel.len().min(40) {
            if c.cancel[i] {
                push(&|d| d.cancel[i] = false);
            }
        }
    }
    if !c.write_script.is_empty() {
        push(&|d| d.write_script.clear());
        push(&|d| d.write_script.truncate(d.write_script.len() / 2));
        if c.write_script.len() <= 40 {
            for i in 0..c.write_script.len() {
                push(&|d| {
                    d.write_script.remove(i);
                });
            }
        }
        for i in 0..c.write_script.len().min(40) {
            if let WriteEv::Pending(w) = c.write_script[i] {
                if w != WakeP::Now {
                    push(&|d| d.write_script[i] = WriteEv::Pending(WakeP::Now));
                }
            }
        }
    }
    if c.write_tail != 0 {
        push(&|d| d.write_tail = 0);
    }
    // suffix, raw stream
    for s in shrink_bs(&c.suffix) {
        push(&|d| d.suffix = s.clone());
    }
    if c.packets.is_empty() {
        let n = c.stream.len();
        if n > 1 {
            push(&|d| d.stream.0.truncate(n / 2));
            push(&|d| d.stream.0.truncate(n - 1));
        }
    }
    // style
    if c.style != Default::default() {
        push(&|d| d.style = Default::default());
        if c.style.shuffle != 0 {
            push(&|d| d.style.shuffle = 0);
        }
        if c.style.rl_width != 0 {
            push(&|d| d.style.rl_width = 0);
        }
        if c.style.spell != 0 {
            push(&|d| d.style.spell = 0);
        }
    }
    if c.reader_style != 0 {
        push(&|d| d.reader_style = 0);
    }
    if c.writer_style != 0 {
        push(&|d| d.writer_style = 0);
    }
    // scenario integers towards 0
    for i in 0..c.n.len() {
        if c.n[i] != 0 {
            push(&|d| d.n[i] = 0);
            if c.n[i] > 1 {
                push(&|d| d.n[i] /= 2);
                push(&|d| d.n[i] -= 1);
            }
        }
    }
    // packets
    for i in 0..c.packets.len() {
        for a in shrink_ast(&c.packets[i]) {
            push(&|d| d.packets[i] = a.clone());
        }
    }
    v
}

/// Returns the minimised case and the number of candidate runs spent.
pub fn minimise(
    case: &Case,
    signature: &str,
    run: fn(&Case, bool) -> RunOut,
    max_candidates: usize,
) -> (Case, usize) {
    let mut cur = case.clone();
    let mut spent = 0usize;
    // bounded in wall-clock time as well: candidates of a multi-megabyte case are expensive
    let deadline = std::time::Instant::now() + std::time::Duration::from_secs(45);
    loop {
        if std::time::Instant::now() > deadline {
            return (cur, spent);
        }
        let mut improved = false;
        for cand in candidates(&cur) {
            if spent >= max_candidates || std::time::Instant::now() > deadline {
                return (cur, spent);
            }
            spent += 1;
            let out = crate::runner::run_case(run, &cand, false);
            if out.violations.iter().any(|v| v.signature == signature) {
                cur = cand;
                improved = true;
                break;
            }
        }
        if !improved {
            return (cur, spent);
        }
    }
}
