//! Catalogue of single, localised malformations (fault kind F12) with the error the library
//! documents for each. Expected values are computed here, independently of the library.

use crate::ast::*;
use crate::refcodec::{self, Encoded, Span, Style, SK};
use crate::spec::{self, PType};

#[derive(Clone, Debug, PartialEq, Eq)]
pub enum Expect {
    /// all three front-ends return an error with this normalised text
    All(String),
    /// no prediction: the frame is only judged by the reference grammar (C04); C20 skips it
    RefOnly,
    /// an inner field runs past the end of the frame: strict poll decoder says
    /// InvalidRemainingLength, blocking says Ok(None), async says is_eof()
    Crossing,
}

#[derive(Clone, Debug)]
pub struct Mal {
    pub name: &'static str,
    pub site: String,
    pub frame: Vec<u8>,
    pub expect: Expect,
}

fn refr(first: u8, body: &[u8]) -> Vec<u8> {
    refcodec::frame(first, body, 0).0
}

/// Rebuild the frame from a modified body (the part after the fixed header).
fn with_body(e: &Encoded, f: impl FnOnce(&mut Vec<u8>)) -> Vec<u8> {
    let mut body = e.bytes[e.header_len..].to_vec();
    f(&mut body);
    refr(e.bytes[0], &body)
}

fn sample<T: Clone>(v: Vec<T>, max: usize) -> Vec<T> {
    if v.len() <= max {
        return v;
    }
    let step = v.len() as f64 / max as f64;
    (0..max).map(|i| v[(i as f64 * step) as usize].clone()).collect()
}

fn dbg_str(b: &[u8]) -> String {
    format!("{:?}", String::from_utf8_lossy(b))
}

/// All applicable catalogue malformations of packet `a` (capped per kind for large packets).
pub fn enumerate(a: &Ast, fam: Fam) -> Vec<Mal> {
    let v5 = fam.is_v5();
    let t = a.type_no();
    // spell codes out so that a Code span exists where MQTT 5 allows a short form
    let st = Style { spell: 2, ..Style::default() };
    let e = refcodec::ref_encode(a, fam, &st);
    let canon = refcodec::ref_encode(a, fam, &Style::default());
    let mut out: Vec<Mal> = Vec::new();
    let spans_of = |k: SK| -> Vec<Span> { sample(e.spans.iter().copied().filter(|s| s.kind == k).collect(), 6) };
    let hl = e.header_len;
    let tn = spec::lib_type_name(t);

    // Every malformation is a full copy of the frame: for multi-megabyte packets only a handful
    // of header-level ones are produced (the generator once spent minutes and tens of GiB here).
    if e.bytes.len() > 300_000 {
        let mut f = canon.bytes.clone();
        f[0] = if t == 3 { f[0] | 0x06 } else { f[0] & 0x0F };
        out.push(Mal {
            name: if t == 3 { "publish-qos3" } else { "header-flags" },
            site: "large packet".into(),
            frame: f,
            expect: Expect::All(if t == 3 { "InvalidQos(3)".into() } else { "InvalidHeader".into() }),
        });
        if let Some(s) = e.spans.iter().find(|s| s.kind == SK::Pid) {
            let mut f = e.bytes.clone();
            f[s.off] = 0;
            f[s.off + 1] = 0;
            out.push(Mal { name: "zero-pid", site: format!("@{}", s.off), frame: f, expect: Expect::All("ZeroPid".into()) });
        }
        return out;
    }

    // 1. illegal type nibble / flags
    {
        let mut firsts: Vec<u8> = vec![e.bytes[0] & 0x0F]; // type 0
        if !v5 {
            firsts.push(0xF0);
        }
        if t != 3 {
            for fl in 0..16u8 {
                if Some(fl) != spec::fixed_flags(t, v5) {
                    firsts.push((t << 4) | fl);
                }
            }
        }
        for fb in sample(firsts, 8) {
            let mut f = canon.bytes.clone();
            f[0] = fb;
            out.push(Mal { name: "header-flags", site: format!("first={fb:#04x}"), frame: f, expect: Expect::All("InvalidHeader".into()) });
        }
    }
    // 2. PUBLISH QoS 3
    if t == 3 {
        let mut f = canon.bytes.clone();
        f[0] |= 0x06;
        // with QoS bits 3 the body layout is irrelevant: the header is rejected first
        out.push(Mal { name: "publish-qos3", site: String::new(), frame: f, expect: Expect::All("InvalidQos(3)".into()) });
    }
    // 3. zero packet identifier
    for s in spans_of(SK::Pid) {
        let mut f = e.bytes.clone();
        f[s.off] = 0;
        f[s.off + 1] = 0;
        out.push(Mal { name: "zero-pid", site: format!("@{}", s.off), frame: f, expect: Expect::All("ZeroPid".into()) });
    }
    // 4. subscription options / requested QoS
    for s in spans_of(SK::SubOpt) {
        let bads: &[u8] = if v5 { &[0x03, 0x40, 0x80, 0x30, 0xFF, 0x33] } else { &[3, 4, 0x80, 0xFF] };
        for b in bads {
            let mut f = e.bytes.clone();
            f[s.off] = *b;
            let exp = if v5 { format!("InvalidSubscriptionOption({b})") } else { format!("InvalidQos({b})") };
            out.push(Mal { name: "sub-option", site: format!("@{}={b:#04x}", s.off), frame: f, expect: Expect::All(exp) });
        }
    }
    // 5./10. connect flags
    if let Ast::Connect(c) = a {
        for s in spans_of(SK::ConnFlags) {
            let cur = e.bytes[s.off];
            if c.will.is_some() {
                let mut f = e.bytes.clone();
                f[s.off] = cur | 0x18;
                out.push(Mal { name: "will-qos3", site: String::new(), frame: f, expect: Expect::All("InvalidQos(3)".into()) });
            } else {
                for bits in [0x08u8, 0x10, 0x18] {
                    let mut f = e.bytes.clone();
                    f[s.off] = cur | bits;
                    out.push(Mal {
                        name: "will-qos-without-will",
                        site: format!("flags={:#04x}", cur | bits),
                        frame: f,
                        expect: Expect::All(format!("InvalidConnectFlags({})", cur | bits)),
                    });
                }
            }
            let mut f = e.bytes.clone();
            f[s.off] = cur | 1;
            out.push(Mal {
                name: "connect-reserved-flag",
                site: format!("flags={:#04x}", cur | 1),
                frame: f,
                expect: Expect::All(format!("InvalidConnectFlags({})", cur | 1)),
            });
        }
        // 21. protocol name / level
        for s in spans_of(SK::Level) {
            for lv in [0u8, 1, 2, 6, 7, 0x84, 0xFF] {
                let mut f = e.bytes.clone();
                f[s.off] = lv;
                out.push(Mal {
                    name: "protocol-level",
                    site: format!("level={lv}"),
                    frame: f,
                    expect: Expect::All(format!("InvalidProtocol({}, {lv})", dbg_str(&c.proto_name.0))),
                });
            }
        }
        // protocol names of other lengths (0..=12 bytes), spelled into a re-encoded CONNECT
        for nm in [
            "", "M", "MQT", "MQTTT", "MQIsd", "MQIsdpX", "MQTT-SN", "MQTTMQTT", "MQIsdpv3", "MQTT 3.1.1", "MQIsdpMQIsdp",
            // same letters, other case; NUL padding before / after
            "mqtt", "Mqtt", "MQTt", "MQISDP", "mqisdp", "MqIsDp", "MQIsdP", "\0MQTT", "\0\0MQTT", "\0MQIsdp", "MQTT\0", "MQIsdp\0", " MQTT", "MQTT ",
        ] {
            if nm.as_bytes() == c.proto_name.0.as_slice() {
                continue;
            }
            let nm: &str = nm;
            let mut b = (**c).clone();
            b.proto_name = Bs::s(nm);
            let f = refcodec::ref_encode(&Ast::Connect(Box::new(b)), fam, &st).bytes;
            out.push(Mal {
                name: "protocol-name-length",
                site: format!("{nm:?}"),
                frame: f,
                expect: Expect::All(format!("InvalidProtocol({nm:?}, {})", c.level)),
            });
        }
        for pad in [255usize, 256, 512] {
            let mut b = (**c).clone();
            let mut v = c.proto_name.0.clone();
            v.extend(std::iter::repeat(b' ').take(pad));
            b.proto_name = Bs(v.clone());
            out.push(Mal {
                name: "protocol-name-length",
                site: format!("genuine+{pad} bytes"),
                frame: refcodec::ref_encode(&Ast::Connect(Box::new(b)), fam, &st).bytes,
                expect: Expect::All(format!("InvalidProtocol({}, {})", dbg_str(&v), c.level)),
            });
        }
        for s in spans_of(SK::ProtoName) {
            for i in 0..s.len {
                let mut f = e.bytes.clone();
                f[s.off + i] = b'x';
                let name = f[s.off..s.off + s.len].to_vec();
                out.push(Mal {
                    name: "protocol-name",
                    site: format!("byte{i}"),
                    frame: f,
                    expect: Expect::All(format!("InvalidProtocol({}, {})", dbg_str(&name), c.level)),
                });
            }
        }
    }
    // 7./8./9./6. codes
    if let Ast::Connack { .. } = a {
        for s in spans_of(SK::ConnackFlags) {
            for b in [2u8, 3, 0x80, 0xFF] {
                let mut f = e.bytes.clone();
                f[s.off] = b;
                out.push(Mal { name: "connack-flags", site: format!("={b}"), frame: f, expect: Expect::All(format!("InvalidConnackFlags({b})")) });
            }
        }
    }
    for s in spans_of(SK::Code) {
        let bads: Vec<u8> = if v5 {
            (0..=255u8).filter(|b| !spec::reason_codes(t).contains(b)).collect()
        } else if t == 2 {
            (6..=255u8).collect()
        } else if t == 9 {
            (0..=255u8).filter(|b| !spec::V3_SUBACK_CODES.contains(b)).collect()
        } else {
            vec![]
        };
        // a few representative bad codes: neighbours of valid ones, codes valid for other packets
        let mut picks: Vec<u8> = Vec::new();
        for cand in [0x03u8, 0x05, 0x06, 0x10, 0x11, 0x18, 0x7F, 0x80, 0x81, 0x8C, 0x92, 0x9E, 0xA3, 0xFF, 0x01, 0x04] {
            if bads.contains(&cand) && picks.len() < 5 {
                picks.push(cand);
            }
        }
        for b in picks {
            let mut f = e.bytes.clone();
            f[s.off] = b;
            let exp = if v5 {
                format!("InvalidReasonCode({tn}, {b})")
            } else if t == 2 {
                format!("InvalidConnectReturnCode({b})")
            } else {
                format!("InvalidQos({b})")
            };
            out.push(Mal { name: "bad-code", site: format!("@{}={b:#04x}", s.off), frame: f, expect: Expect::All(exp) });
        }
    }
    // 12. non-UTF-8 byte in a string
    for k in [SK::StrBody, SK::TopicName, SK::Filter, SK::ResponseTopic, SK::ProtoName] {
        for s in spans_of(k) {
            if s.len == 0 {
                continue;
            }
            for i in sample((0..s.len).collect::<Vec<usize>>(), 3) {
                let mut f = e.bytes.clone();
                f[s.off + i] = 0xFF;
                out.push(Mal { name: "non-utf8", site: format!("{k:?}@{}+{i}", s.off), frame: f, expect: Expect::All("InvalidString".into()) });
            }
        }
    }
    // 12a. ill-formed UTF-8 *sequences* spliced into a string (re-encoded, so lengths stay right)
    {
        const BAD: [&[u8]; 9] = [
            &[0xED, 0xA0, 0x80],                   // lone high surrogate
            &[0xED, 0xB0, 0x80],                   // lone low surrogate
            &[0xED, 0xA0, 0x80, 0xED, 0xB0, 0x80], // CESU-8 surrogate pair
            &[0xC0, 0x80],                         // overlong NUL (modified UTF-8)
            &[0xE0, 0x80, 0x80],                   // overlong
            &[0xF4, 0x90, 0x80, 0x80],             // above U+10FFFF
            &[0x80],                               // stray continuation
            &[0xC3],                               // truncated sequence
            &[0xF0, 0x9F, 0x98],                   // truncated 4-byte sequence
        ];
        // string fields reachable through the AST: client id, user name, reason/other string
        // properties, user property halves, topics
        let mut variants: Vec<(String, Ast)> = Vec::new();
        let splice = |b: &Bs, bad: &[u8], at_end: bool| -> Option<Bs> {
            let mut v = b.0.clone();
            if at_end {
                v.extend_from_slice(bad);
            } else {
                let mut n = v.len() / 2;
                while n > 0 && (v[n] & 0xC0) == 0x80 {
                    n -= 1;
                }
                let tail = v.split_off(n);
                v.extend_from_slice(bad);
                v.extend_from_slice(&tail);
            }
            if v.len() > 65_535 || std::str::from_utf8(&v).is_ok() {
                None
            } else {
                Some(Bs(v))
            }
        };
        for (bi, bad) in BAD.iter().enumerate() {
            let at_end = bi % 2 == 0;
            let mut b = a.clone();
            let mut site = String::new();
            match &mut b {
                Ast::Connect(c) => {
                    if let Some(x) = splice(&c.client_id, bad, at_end) {
                        c.client_id = x;
                        site = "client_id".into();
                    }
                }
                Ast::Publish { topic, .. } => {
                    if let Some(x) = splice(topic, bad, at_end) {
                        *topic = x;
                        site = "topic".into();
                    }
                }
                Ast::Subscribe { topics, .. } => {
                    if let Some(x) = splice(&topics[0].0, bad, at_end) {
                        topics[0].0 = x;
                        site = "filter".into();
                    }
                }
                Ast::Unsubscribe { topics, .. } => {
                    if let Some(x) = splice(&topics[0], bad, at_end) {
                        topics[0] = x;
                        site = "filter".into();
                    }
                }
                _ => {}
            }
            if site.is_empty() {
                if let Some(p) = b.props_mut() {
                    for (_, v) in p.iter_mut() {
                        match v {
                            PVal::Str(x) => {
                                if let Some(y) = splice(x, bad, at_end) {
                                    *x = y;
                                    site = "string property".into();
                                    break;
                                }
                            }
                            PVal::Pair(k, x) => {
                                let tgt = if bi % 3 == 0 { k } else { x };
                                if let Some(y) = splice(tgt, bad, at_end) {
                                    *tgt = y;
                                    site = "user property".into();
                                    break;
                                }
                            }
                            _ => {}
                        }
                    }
                }
            }
            if !site.is_empty() {
                variants.push((format!("{site}:{:02x?}", bad), b));
            }
        }
        for (site, b) in variants {
            out.push(Mal { name: "ill-formed-utf8", site, frame: refcodec::ref_encode(&b, fam, &st).bytes, expect: Expect::All("InvalidString".into()) });
        }
    }
    // 12b. boundary between two adjacent strings moved into the middle of a code point
    {
        let mut b = a.clone();
        if crate::gen::split_codepoint(&mut b) {
            out.push(Mal { name: "split-codepoint", site: String::new(), frame: refcodec::ref_encode(&b, fam, &st).bytes, expect: Expect::All("InvalidString".into()) });
        }
    }
    // 12c. payload flagged as UTF-8 that is not (PUBLISH payload; will payload)
    if v5 {
        let flagged = |p: &Props| p.iter().any(|(id, v)| *id == 0x01 && *v == PVal::Byte(1));
        if let Ast::Publish { props, payload, .. } = a {
            if flagged(props) && !payload.is_empty() {
                for s in spans_of(SK::Payload) {
                    let mut sites = vec![(0usize, 0x80u8), (s.len / 2, 0xFF), (s.len - 1, 0xE4), (s.len - 1, 0xBF)];
                    // a lead byte just before / a stray continuation just after every 64 KiB boundary
                    let mut k = 65_536;
                    while k < s.len {
                        sites.push((k - 1, 0xC3));
                        sites.push((k, 0xA9));
                        k += 65_536;
                    }
                    for (i, b) in sites {
                        let mut f = e.bytes.clone();
                        f[s.off + i] = b;
                        if std::str::from_utf8(&f[s.off..s.off + s.len]).is_ok() {
                            continue;
                        }
                        out.push(Mal { name: "payload-not-utf8", site: format!("publish+{i}={b:#04x}"), frame: f, expect: Expect::All("InvalidPayloadFormat".into()) });
                    }
                }
            }
        }
        if let Ast::Connect(c) = a {
            if let Some(w) = &c.will {
                if flagged(&w.props) {
                    // the will payload is the BinBody that follows the will topic
                    let topic_end = e.spans.iter().find(|x| x.kind == SK::TopicName).map(|x| x.off + x.len);
                    if let Some(bin) = e.spans.iter().find(|x| x.kind == SK::BinBody && Some(x.off) == topic_end.map(|t| t + 2) && x.len > 0) {
                        for (i, b) in [(0usize, 0x80u8), (bin.len - 1, 0xE4), (bin.len / 2, 0xFF)] {
                            let mut f = e.bytes.clone();
                            f[bin.off + i] = b;
                            if std::str::from_utf8(&f[bin.off..bin.off + bin.len]).is_ok() {
                                continue;
                            }
                            out.push(Mal { name: "payload-not-utf8", site: format!("will+{i}={b:#04x}"), frame: f, expect: Expect::All("InvalidPayloadFormat".into()) });
                        }
                    }
                    // the same at the maximum length a will payload can have, ending inside a character
                    let mut b = (**c).clone();
                    let mut pl = vec![b'a'; 65_535];
                    pl[65_533] = 0xE4;
                    pl[65_534] = 0xBD;
                    b.will.as_mut().unwrap().payload = Bs(pl);
                    out.push(Mal {
                        name: "payload-not-utf8",
                        site: "will: 65,535 bytes ending inside a character".into(),
                        frame: refcodec::ref_encode(&Ast::Connect(Box::new(b)), fam, &st).bytes,
                        expect: Expect::All("InvalidPayloadFormat".into()),
                    });
                }
            }
        }
    }
    // 13. wildcard / NUL in a topic name
    for (k, is_resp) in [(SK::TopicName, false), (SK::ResponseTopic, true)] {
        for s in spans_of(k) {
            for i in sample((0..s.len).collect::<Vec<usize>>(), 3) {
                if e.bytes[s.off + i] >= 0x80 {
                    continue; // keep the text valid UTF-8
                }
                for ch in [b'+', b'#', 0u8] {
                    let mut f = e.bytes.clone();
                    f[s.off + i] = ch;
                    let text = f[s.off..s.off + s.len].to_vec();
                    let exp = if is_resp { "InvalidResponseTopic".to_string() } else { format!("InvalidTopicName({})", dbg_str(&text)) };
                    out.push(Mal { name: "bad-topic-name", site: format!("{k:?}@{}+{i}={ch:#04x}", s.off), frame: f, expect: Expect::All(exp) });
                }
            }
        }
    }
    // 14. invalid topic filter
    for s in spans_of(SK::Filter) {
        for i in sample((0..s.len).collect::<Vec<usize>>(), 4) {
            if e.bytes[s.off + i] >= 0x80 {
                continue;
            }
            for ch in [b'#', b'+', 0u8] {
                let mut f = e.bytes.clone();
                f[s.off + i] = ch;
                let text = f[s.off..s.off + s.len].to_vec();
                let Ok(ts) = std::str::from_utf8(&text) else { continue };
                if spec::topic_filter_ok(ts) {
                    continue;
                }
                out.push(Mal {
                    name: "bad-topic-filter",
                    site: format!("@{}+{i}={ch:#04x}", s.off),
                    frame: f,
                    expect: Expect::All(format!("InvalidTopicFilter({})", dbg_str(&text))),
                });
            }
        }
    }
    // 15. unknown property id, 19. bad byte property
    for s in spans_of(SK::PropId) {
        for b in [0x00u8, 0x04, 0x0A, 0x20, 0x2B, 0x7F, 0xFF] {
            let mut f = e.bytes.clone();
            f[s.off] = b;
            out.push(Mal { name: "unknown-property", site: format!("@{}={b:#04x}", s.off), frame: f, expect: Expect::All(format!("InvalidPropertyId({b})")) });
        }
    }
    for s in spans_of(SK::PropByte) {
        for b in [2u8, 3, 0x80, 0xFF] {
            let mut f = e.bytes.clone();
            f[s.off] = b;
            out.push(Mal {
                name: "bad-byte-property",
                site: format!("{}={b}", spec::prop_name(s.tag)),
                frame: f,
                expect: Expect::All(format!("InvalidByteProperty({}, {b})", spec::prop_name(s.tag))),
            });
        }
    }
    // 16./17. duplicated and disallowed properties (AST level, then re-encoded)
    if v5 {
        let mut lists: Vec<(bool, Props)> = Vec::new();
        if let Some(p) = a.props() {
            lists.push((false, p.clone()));
        }
        if let Ast::Connect(c) = a {
            if let Some(w) = &c.will {
                lists.push((true, w.props.clone()));
            }
        }
        for (is_will, props) in lists {
            let tt = if is_will { spec::WILL } else { t };
            let put = |np: Props| -> Vec<u8> {
                let mut b = a.clone();
                if is_will {
                    if let Ast::Connect(c) = &mut b {
                        c.will.as_mut().unwrap().props = np;
                    }
                } else {
                    *b.props_mut().unwrap() = np;
                }
                refcodec::ref_encode(&b, fam, &st).bytes
            };
            // duplicate each non-repeatable property (after the original and at the end)
            for (i, (id, v)) in props.iter().enumerate() {
                if spec::may_repeat(tt, *id) || *id == 0x26 {
                    continue;
                }
                for at_end in [false, true] {
                    let mut np = props.clone();
                    if at_end {
                        np.push((*id, v.clone()));
                    } else {
                        np.insert(i + 1, (*id, v.clone()));
                    }
                    out.push(Mal {
                        name: "duplicated-property",
                        site: format!("{}{}", spec::prop_name(*id), if at_end { "@end" } else { "" }),
                        frame: put(np),
                        expect: Expect::All(format!("DuplicatedProperty({})", spec::prop_name(*id))),
                    });
                }
            }
            // a property that is legal elsewhere but not here
            let foreign: Vec<u8> = spec::PROP_IDS.iter().copied().filter(|id| !spec::allowed_props(tt).contains(id)).collect();
            for id in sample(foreign, 6) {
                let val = match spec::prop_type(id).unwrap() {
                    PType::Byte => PVal::Byte(1),
                    PType::U16 => PVal::U16(7),
                    PType::U32 => PVal::U32(7),
                    PType::Var => PVal::Var(7),
                    PType::Str => PVal::Str(Bs::s("x")),
                    PType::Bin => PVal::Bin(Bs::s("x")),
                    PType::Pair => PVal::Pair(Bs::s("k"), Bs::s("v")),
                };
                for front in [true, false] {
                    let mut np = props.clone();
                    if front {
                        np.insert(0, (id, val.clone()));
                    } else {
                        np.push((id, val.clone()));
                    }
                    let exp = if is_will {
                        format!("InvalidWillProperty({})", spec::prop_name(id))
                    } else {
                        format!("InvalidProperty({tn}, {})", spec::prop_name(id))
                    };
                    out.push(Mal { name: "disallowed-property", site: spec::prop_name(id).to_string(), frame: put(np), expect: Expect::All(exp) });
                }
            }
        }
    }
    // 18. property length cut inside the last property
    for s in spans_of(SK::PropLen) {
        let Ok((plen, w, _)) = spec::read_varint(&e.bytes[s.off..]) else { continue };
        if plen == 0 {
            continue;
        }
        let block_end = s.off + w + plen as usize;
        // size of the last property in this block
        let last_id = e.spans.iter().filter(|x| x.kind == SK::PropId && x.off >= s.off + w && x.off < block_end).map(|x| x.off).max();
        let Some(last_off) = last_id else { continue };
        let last_size = block_end - last_off;
        for d in sample((1..last_size).collect::<Vec<usize>>(), 3) {
            let np = plen - d as u32;
            if spec::varint_len(np) != w {
                continue;
            }
            let mut f = e.bytes.clone();
            f[s.off..s.off + w].copy_from_slice(&spec::varint(np));
            out.push(Mal {
                name: "property-length-cut",
                site: format!("{}{}-{}", if s.tag == 0xFF { "will:" } else { "" }, plen, d),
                frame: f,
                expect: Expect::All(format!("InvalidPropertyLength({np})")),
            });
        }
    }
    // 20. over-long variable byte integers
    {
        let mut f = vec![canon.bytes[0], 0xFF, 0xFF, 0xFF, 0xFF, 0x7F];
        f.extend_from_slice(&canon.bytes[canon.header_len..]);
        out.push(Mal { name: "varint5-remaining-length", site: String::new(), frame: f, expect: Expect::All("InvalidVarByteInt".into()) });
    }
    for k in [SK::PropLen, SK::PropVar] {
        for s in spans_of(k) {
            let f = with_body(&e, |b| {
                let o = s.off - hl;
                b.splice(o..o + s.len, [0x80u8, 0x80, 0x80, 0x80, 0x01]);
            });
            out.push(Mal { name: "varint5-inner", site: format!("{k:?}@{}", s.off), frame: f, expect: Expect::All("InvalidVarByteInt".into()) });
        }
    }
    // 22. no topics
    match a {
        Ast::Subscribe { pid, props, .. } => {
            let b = Ast::Subscribe { pid: *pid, props: props.clone(), topics: vec![] };
            out.push(Mal { name: "empty-subscription", site: String::new(), frame: refcodec::ref_encode(&b, fam, &st).bytes, expect: Expect::All("EmptySubscription".into()) });
        }
        Ast::Unsubscribe { pid, props, .. } => {
            let b = Ast::Unsubscribe { pid: *pid, props: props.clone(), topics: vec![] };
            out.push(Mal { name: "empty-subscription", site: String::new(), frame: refcodec::ref_encode(&b, fam, &st).bytes, expect: Expect::All("EmptySubscription".into()) });
        }
        _ => {}
    }
    // 23a. remaining length declared smaller than the fixed part of the body while the body bytes
    // are all there: the packet types that account for their remaining length must say so
    {
        let accounts = if v5 { matches!(t, 3 | 8 | 9 | 10 | 11) } else { matches!(t, 3 | 8 | 9 | 10) };
        // PUBLISH needs its topic length prefix (2 bytes), the others their packet identifier
        if accounts && canon.bytes.len() - canon.header_len >= 2 {
            for k in [0u8, 1] {
                let mut f = vec![canon.bytes[0], k];
                f.extend_from_slice(&canon.bytes[canon.header_len..]);
                // PUBLISH with an empty topic and declared length 0/1: topic prefix alone is 2 bytes
                out.push(Mal { name: "remaining-length-too-small", site: format!("declared={k}"), frame: f, expect: Expect::All("InvalidRemainingLength".into()) });
            }
        }
    }
    // 23b. the frame cut at every field boundary and re-framed (complete frames, minimal
    // integers): judged by the reference grammar only
    {
        let mut cuts: Vec<usize> = canon.spans.iter().map(|s| s.off).filter(|o| *o > canon.header_len && *o < canon.bytes.len()).collect();
        cuts.sort_unstable();
        cuts.dedup();
        for c in sample(cuts, 12) {
            out.push(Mal { name: "cut-at-field-boundary", site: format!("@{c}"), frame: refr(canon.bytes[0], &canon.bytes[canon.header_len..c]), expect: Expect::RefOnly });
        }
        // and the spelled-out form cut likewise (reason code without property length etc.)
        let mut cuts2: Vec<usize> = e.spans.iter().map(|s| s.off).filter(|o| *o > hl && *o < e.bytes.len()).collect();
        cuts2.sort_unstable();
        cuts2.dedup();
        for c in sample(cuts2, 8) {
            out.push(Mal { name: "cut-at-field-boundary", site: format!("spelled@{c}"), frame: refr(e.bytes[0], &e.bytes[hl..c]), expect: Expect::RefOnly });
        }
    }
    // 23. remaining length shortened so that the last inner field crosses the frame end
    if let Some(last) = canon.spans.iter().filter(|s| s.len > 0).max_by_key(|s| s.off + s.len) {
        let end_ok = last.off + last.len == canon.bytes.len();
        let safe = match last.kind {
            SK::StrBody | SK::TopicName | SK::Filter | SK::BinBody | SK::ResponseTopic => true,
            SK::Pid => !v5 && matches!(t, 4..=7 | 11),
            SK::SubOpt => true,
            _ => matches!(a, Ast::Connect(_)) && !matches!(last.kind, SK::PropLen),
        };
        if end_ok && safe {
            for d in 1..=last.len.min(2) {
                let body = &canon.bytes[canon.header_len..canon.bytes.len() - d];
                out.push(Mal { name: "inner-field-crosses-frame-end", site: format!("{:?}-{d}", last.kind), frame: refr(canon.bytes[0], body), expect: Expect::Crossing });
            }
        }
    }
    out
}


/// Two catalogue malformations of the same packet applied at once (only pairs that are in-place
/// byte edits of the same spelled-out frame can be merged). No error is predicted for a pair:
/// scenarios use these streams for differential and schedule-independence oracles.
pub fn pair(a: &Ast, fam: Fam, pick: u64) -> Option<Vec<u8>> {
    let st = Style { spell: 2, ..Style::default() };
    let base = refcodec::ref_encode(a, fam, &st).bytes;
    let mals: Vec<Mal> = enumerate(a, fam).into_iter().filter(|m| m.frame.len() == base.len() && m.frame != base).collect();
    if mals.len() < 2 {
        return None;
    }
    let i = (pick % mals.len() as u64) as usize;
    let j = ((pick / mals.len() as u64) % mals.len() as u64) as usize;
    if i == j {
        return None;
    }
    let mut f = base.clone();
    for m in [&mals[i], &mals[j]] {
        for (k, b) in m.frame.iter().enumerate() {
            if *b != base[k] {
                f[k] = *b;
            }
        }
    }
    Some(f)
}
