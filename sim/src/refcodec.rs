//! Reference model of MQTT 3.1 / 3.1.1 / 5.0 framing written from the OASIS documents.
//! `ref_encode` turns a neutral AST into bytes (recording where every field lies), `ref_decode`
//! is a strict structural parser of one complete frame (plus the pinned leniencies of DESIGN
//! §4.1). No constant, table or function of the library is used.

use serde::{Deserialize, Serialize};

use crate::ast::*;
use crate::spec::{self, PType, VarErr};

#[derive(Clone, Copy, Debug, PartialEq, Eq, Hash, Serialize, Deserialize)]
pub enum SK {
    First,
    RemLen,
    ProtoName,
    Level,
    ConnFlags,
    KeepAlive,
    PropLen,
    PropId,
    PropByte,
    PropU16,
    PropU32,
    PropVar,
    StrLen,
    /// body of a UTF-8 string that is not a topic
    StrBody,
    /// body of a topic name (PUBLISH topic, will topic)
    TopicName,
    /// body of a Response Topic property
    ResponseTopic,
    /// body of a topic filter
    Filter,
    BinLen,
    BinBody,
    Pid,
    Code,
    ConnackFlags,
    SubOpt,
    Payload,
}

#[derive(Clone, Copy, Debug, PartialEq, Eq, Serialize, Deserialize)]
pub struct Span {
    pub kind: SK,
    pub off: usize,
    pub len: usize,
    /// property id the span belongs to (0 if none); 0xFF for will properties' length
    pub tag: u8,
}

/// How to spell a packet. The default is what a conformant minimal encoder emits.
#[derive(Clone, Debug, PartialEq, Eq, Serialize, Deserialize, Default, Hash)]
pub struct Style {
    /// write reason code and property length even where MQTT 5 allows omitting them
    /// 0: shortest form; 1: reason code spelled out, no property length (PUBACK family,
    /// DISCONNECT); 2: everything spelled out
    pub spell: u8,
    /// rotate/shuffle the property list by this seed (0 = keep)
    pub shuffle: u64,
    /// pad the remaining length to this many bytes (0 = minimal)
    pub rl_width: u8,
    /// pad each property length to this many bytes (0 = minimal)
    pub plen_width: u8,
    /// set the Will Retain bit although there is no will (pinned leniency S5)
    pub stray_will_retain: bool,
    /// pad variable-byte-integer property values (Subscription Identifier) to this many bytes
    #[serde(default)]
    pub pvar_width: u8,
}

struct W {
    buf: Vec<u8>,
    spans: Vec<Span>,
    tag: u8,
}

impl W {
    fn span(&mut self, kind: SK, len: usize) {
        self.spans.push(Span { kind, off: self.buf.len(), len, tag: self.tag });
    }
    fn u8(&mut self, kind: SK, x: u8) {
        self.span(kind, 1);
        self.buf.push(x);
    }
    fn u16(&mut self, kind: SK, x: u16) {
        self.span(kind, 2);
        self.buf.extend_from_slice(&x.to_be_bytes());
    }
    fn u32(&mut self, kind: SK, x: u32) {
        self.span(kind, 4);
        self.buf.extend_from_slice(&x.to_be_bytes());
    }
    fn var(&mut self, kind: SK, x: u32, width: u8) {
        let v = if width == 0 { spec::varint(x) } else { spec::varint_padded(x, (width as usize).max(spec::varint_len(x))) };
        self.span(kind, v.len());
        self.buf.extend_from_slice(&v);
    }
    fn lp(&mut self, len_kind: SK, body_kind: SK, b: &Bs) {
        self.span(len_kind, 2);
        self.buf.extend_from_slice(&(b.len() as u16).to_be_bytes());
        self.span(body_kind, b.len());
        self.buf.extend_from_slice(&b.0);
    }
    fn str(&mut self, b: &Bs) {
        self.lp(SK::StrLen, SK::StrBody, b)
    }
    fn bin(&mut self, b: &Bs) {
        self.lp(SK::BinLen, SK::BinBody, b)
    }
}

fn shuffled(p: &Props, seed: u64) -> Props {
    if seed == 0 || p.len() < 2 {
        return p.clone();
    }
    let mut r = crate::rng::Rng::new(seed);
    let mut v = p.clone();
    for i in (1..v.len()).rev() {
        let j = r.usize_below(i + 1);
        v.swap(i, j);
    }
    // keep user properties in their original relative order (their order is significant)
    let users: Vec<(u8, PVal)> = p.iter().filter(|x| x.0 == 0x26).cloned().collect();
    let mut k = 0;
    for x in v.iter_mut() {
        if x.0 == 0x26 {
            *x = users[k].clone();
            k += 1;
        }
    }
    v
}

fn enc_props(w: &mut W, p: &Props, st: &Style, will: bool) {
    let p = shuffled(p, st.shuffle);
    let mut body = W { buf: Vec::new(), spans: Vec::new(), tag: 0 };
    for (id, v) in &p {
        body.tag = *id;
        body.u8(SK::PropId, *id);
        match v {
            PVal::Byte(x) => body.u8(SK::PropByte, *x),
            PVal::U16(x) => body.u16(SK::PropU16, *x),
            PVal::U32(x) => body.u32(SK::PropU32, *x),
            PVal::Var(x) => body.var(SK::PropVar, *x, st.pvar_width),
            PVal::Str(x) => {
                if *id == 0x08 {
                    body.lp(SK::StrLen, SK::ResponseTopic, x)
                } else {
                    body.str(x)
                }
            }
            PVal::Bin(x) => body.bin(x),
            PVal::Pair(k, v) => {
                body.str(k);
                body.str(v);
            }
        }
    }
    w.tag = if will { 0xFF } else { 0 };
    w.var(SK::PropLen, body.buf.len() as u32, st.plen_width);
    w.tag = 0;
    let base = w.buf.len();
    for mut s in body.spans {
        s.off += base;
        w.spans.push(s);
    }
    w.buf.extend_from_slice(&body.buf);
}

/// First byte of the fixed header for this packet.
pub fn first_byte(a: &Ast, v5: bool) -> u8 {
    let t = a.type_no();
    let flags = match a {
        Ast::Publish { dup, qos, retain, .. } => (u8::from(*dup) << 3) | (qos << 1) | u8::from(*retain),
        _ => spec::fixed_flags(t, v5).unwrap_or(0),
    };
    (t << 4) | flags
}

pub struct Encoded {
    pub bytes: Vec<u8>,
    pub spans: Vec<Span>,
    pub header_len: usize,
}

/// Encode the body (what follows the fixed header).
fn enc_body(a: &Ast, fam: Fam, st: &Style) -> W {
    let v5 = fam.is_v5();
    let mut w = W { buf: Vec::new(), spans: Vec::new(), tag: 0 };
    match a {
        Ast::Connect(c) => {
            w.lp(SK::StrLen, SK::ProtoName, &c.proto_name);
            w.u8(SK::Level, c.level);
            let mut flags = 0u8;
            if c.clean {
                flags |= 0x02;
            }
            if let Some(wl) = &c.will {
                flags |= 0x04 | (wl.qos << 3);
                if wl.retain {
                    flags |= 0x20;
                }
            } else if st.stray_will_retain {
                flags |= 0x20;
            }
            if c.password.is_some() {
                flags |= 0x40;
            }
            if c.username.is_some() {
                flags |= 0x80;
            }
            w.u8(SK::ConnFlags, flags);
            w.u16(SK::KeepAlive, c.keep_alive);
            if v5 {
                enc_props(&mut w, &c.props, st, false);
            }
            w.str(&c.client_id);
            if let Some(wl) = &c.will {
                if v5 {
                    enc_props(&mut w, &wl.props, st, true);
                }
                w.lp(SK::StrLen, SK::TopicName, &wl.topic);
                w.bin(&wl.payload);
            }
            if let Some(u) = &c.username {
                w.str(u);
            }
            if let Some(p) = &c.password {
                w.bin(p);
            }
        }
        Ast::Connack { sp, code, props } => {
            w.u8(SK::ConnackFlags, u8::from(*sp));
            w.u8(SK::Code, *code);
            if v5 {
                enc_props(&mut w, props, st, false);
            }
        }
        Ast::Publish { topic, pid, props, payload, .. } => {
            w.lp(SK::StrLen, SK::TopicName, topic);
            if let Some(p) = pid {
                w.u16(SK::Pid, *p);
            }
            if v5 {
                enc_props(&mut w, props, st, false);
            }
            w.span(SK::Payload, payload.len());
            w.buf.extend_from_slice(&payload.0);
        }
        Ast::Ack { pid, code, props, .. } => {
            w.u16(SK::Pid, *pid);
            if v5 {
                let need_props = !props.is_empty() || st.spell >= 2;
                let need_code = need_props || *code != 0 || st.spell >= 1;
                if need_code {
                    w.u8(SK::Code, *code);
                }
                if need_props {
                    enc_props(&mut w, props, st, false);
                }
            }
        }
        Ast::Subscribe { pid, props, topics } => {
            w.u16(SK::Pid, *pid);
            if v5 {
                enc_props(&mut w, props, st, false);
            }
            for (f, o) in topics {
                w.lp(SK::StrLen, SK::Filter, f);
                w.u8(SK::SubOpt, *o);
            }
        }
        Ast::Suback { pid, props, codes } => {
            w.u16(SK::Pid, *pid);
            if v5 {
                enc_props(&mut w, props, st, false);
            }
            for c in codes {
                w.u8(SK::Code, *c);
            }
        }
        Ast::Unsubscribe { pid, props, topics } => {
            w.u16(SK::Pid, *pid);
            if v5 {
                enc_props(&mut w, props, st, false);
            }
            for f in topics {
                w.lp(SK::StrLen, SK::Filter, f);
            }
        }
        Ast::Unsuback { pid, props, codes } => {
            w.u16(SK::Pid, *pid);
            if v5 {
                enc_props(&mut w, props, st, false);
                for c in codes {
                    w.u8(SK::Code, *c);
                }
            }
        }
        Ast::Pingreq | Ast::Pingresp => {}
        Ast::Disconnect { code, props } => {
            if v5 {
                let need_props = !props.is_empty() || st.spell >= 2;
                let need_code = need_props || *code != 0 || st.spell >= 1;
                if need_code {
                    w.u8(SK::Code, *code);
                }
                if need_props {
                    enc_props(&mut w, props, st, false);
                }
            }
        }
        Ast::Auth { code, props } => {
            // AUTH has no "code only" form: either nothing, or code + property length
            if *code != 0 || !props.is_empty() || st.spell >= 1 {
                w.u8(SK::Code, *code);
                enc_props(&mut w, props, st, false);
            }
        }
    }
    w
}

pub fn frame(first: u8, body: &[u8], rl_width: u8) -> (Vec<u8>, usize) {
    let mut out = Vec::with_capacity(body.len() + 5);
    out.push(first);
    let rl = if rl_width == 0 {
        spec::varint(body.len() as u32)
    } else {
        spec::varint_padded(body.len() as u32, (rl_width as usize).max(spec::varint_len(body.len() as u32)))
    };
    out.extend_from_slice(&rl);
    let h = out.len();
    out.extend_from_slice(body);
    (out, h)
}

pub fn ref_encode(a: &Ast, fam: Fam, st: &Style) -> Encoded {
    let w = enc_body(a, fam, st);
    assert!(w.buf.len() as u64 <= u64::from(spec::VARINT_MAX), "reference encoder: packet too large");
    let first = first_byte(a, fam.is_v5());
    let (bytes, h) = frame(first, &w.buf, st.rl_width);
    let mut spans = vec![
        Span { kind: SK::First, off: 0, len: 1, tag: 0 },
        Span { kind: SK::RemLen, off: 1, len: h - 1, tag: 0 },
    ];
    for mut s in w.spans {
        s.off += h;
        spans.push(s);
    }
    Encoded { bytes, spans, header_len: h }
}

/// Remaining length the canonical encoding of `a` has.
pub fn ref_body_len(a: &Ast, fam: Fam) -> usize {
    enc_body(a, fam, &Style::default()).buf.len()
}

// ---------------------------------------------------------------------------------------------
// Reference decoder

/// Why the reference grammar rejects a frame (coarse classes; used in signatures and reports).
#[derive(Clone, Debug, PartialEq, Eq, Hash)]
pub enum Rej {
    /// not a whole frame / varint too long: outside the domain of the strict check
    NotAFrame,
    /// a variable byte integer is not minimally encoded: outside the quantifier of C04
    NonMinimal,
    Header,
    /// a field runs past the end of the frame
    Short,
    /// bytes left over inside the frame
    Trailing,
    Pid,
    Qos,
    Code,
    Flags,
    Utf8,
    TopicName,
    TopicFilter,
    Protocol,
    PropId,
    PropDup,
    PropNotAllowed,
    PropLen,
    PropValue,
    Empty,
    PayloadFormat,
}

struct R<'a> {
    b: &'a [u8],
    p: usize,
}

impl<'a> R<'a> {
    fn left(&self) -> usize {
        self.b.len() - self.p
    }
    fn take(&mut self, n: usize) -> Result<&'a [u8], Rej> {
        if self.left() < n {
            return Err(Rej::Short);
        }
        let s = &self.b[self.p..self.p + n];
        self.p += n;
        Ok(s)
    }
    fn u8(&mut self) -> Result<u8, Rej> {
        Ok(self.take(1)?[0])
    }
    fn u16(&mut self) -> Result<u16, Rej> {
        let s = self.take(2)?;
        Ok(u16::from_be_bytes([s[0], s[1]]))
    }
    fn u32(&mut self) -> Result<u32, Rej> {
        let s = self.take(4)?;
        Ok(u32::from_be_bytes([s[0], s[1], s[2], s[3]]))
    }
    fn var(&mut self) -> Result<u32, Rej> {
        match spec::read_varint(&self.b[self.p..]) {
            Ok((v, n, minimal)) => {
                self.p += n;
                if !minimal {
                    return Err(Rej::NonMinimal);
                }
                Ok(v)
            }
            Err(VarErr::NeedMore) => Err(Rej::Short),
            Err(VarErr::TooLong) => Err(Rej::PropValue),
        }
    }
    fn bin(&mut self) -> Result<Bs, Rej> {
        let n = self.u16()? as usize;
        Ok(Bs(self.take(n)?.to_vec()))
    }
    fn str(&mut self) -> Result<Bs, Rej> {
        let b = self.bin()?;
        if std::str::from_utf8(&b.0).is_err() {
            return Err(Rej::Utf8);
        }
        Ok(b)
    }
    fn pid(&mut self) -> Result<u16, Rej> {
        let p = self.u16()?;
        if p == 0 {
            return Err(Rej::Pid);
        }
        Ok(p)
    }
    fn topic_name(&mut self) -> Result<Bs, Rej> {
        let s = self.str()?;
        if !spec::topic_name_ok(s.as_str().unwrap()) {
            return Err(Rej::TopicName);
        }
        Ok(s)
    }
    fn filter(&mut self) -> Result<Bs, Rej> {
        let s = self.str()?;
        if !spec::topic_filter_ok(s.as_str().unwrap()) {
            return Err(Rej::TopicFilter);
        }
        Ok(s)
    }
    fn end(&self) -> Result<(), Rej> {
        if self.left() != 0 {
            Err(Rej::Trailing)
        } else {
            Ok(())
        }
    }
}

fn dec_props(r: &mut R<'_>, t: u8) -> Result<Props, Rej> {
    let plen = r.var().map_err(|e| if e == Rej::PropValue { Rej::PropLen } else { e })? as usize;
    if r.left() < plen {
        return Err(Rej::Short);
    }
    let mut pr = R { b: &r.b[r.p..r.p + plen], p: 0 };
    r.p += plen;
    let allowed = spec::allowed_props(t);
    let mut out: Props = Vec::new();
    // a value crossing the end of the property block is a property-length error
    let fix = |e: Rej| if e == Rej::Short { Rej::PropLen } else { e };
    while pr.left() > 0 {
        let id = pr.u8().map_err(fix)?;
        let Some(ty) = spec::prop_type(id) else { return Err(Rej::PropId) };
        if !allowed.contains(&id) {
            return Err(Rej::PropNotAllowed);
        }
        if !spec::may_repeat(t, id) && out.iter().any(|(i, _)| *i == id) {
            return Err(Rej::PropDup);
        }
        let v = match ty {
            PType::Byte => {
                let b = pr.u8().map_err(fix)?;
                if b > 1 {
                    return Err(Rej::PropValue);
                }
                PVal::Byte(b)
            }
            PType::U16 => PVal::U16(pr.u16().map_err(fix)?),
            PType::U32 => PVal::U32(pr.u32().map_err(fix)?),
            PType::Var => PVal::Var(pr.var().map_err(fix)?),
            PType::Str => {
                let s = pr.str().map_err(fix)?;
                if id == 0x08 && !spec::topic_name_ok(s.as_str().unwrap()) {
                    return Err(Rej::TopicName);
                }
                PVal::Str(s)
            }
            PType::Bin => PVal::Bin(pr.bin().map_err(fix)?),
            PType::Pair => {
                let k = pr.str().map_err(fix)?;
                let v = pr.str().map_err(fix)?;
                PVal::Pair(k, v)
            }
        };
        out.push((id, v));
    }
    Ok(out)
}

fn payload_format_ok(props: &Props, payload: &[u8]) -> Result<(), Rej> {
    let utf8 = props.iter().any(|(id, v)| *id == 0x01 && *v == PVal::Byte(1));
    if utf8 && std::str::from_utf8(payload).is_err() {
        return Err(Rej::PayloadFormat);
    }
    Ok(())
}

fn code_ok(t: u8, c: u8) -> Result<u8, Rej> {
    if spec::reason_codes(t).contains(&c) {
        Ok(c)
    } else {
        Err(Rej::Code)
    }
}

/// Strictly decode one complete frame (`frame.len()` == header + remaining length).
pub fn ref_decode(fam: Fam, fr: &[u8]) -> Result<Ast, Rej> {
    let v5 = fam.is_v5();
    if fr.len() < 2 {
        return Err(Rej::NotAFrame);
    }
    let (rl, n, minimal) = spec::read_varint(&fr[1..]).map_err(|_| Rej::NotAFrame)?;
    if fr.len() != 1 + n + rl as usize {
        return Err(Rej::NotAFrame);
    }
    if !minimal {
        return Err(Rej::NonMinimal);
    }
    let first = fr[0];
    let t = first >> 4;
    let flags = first & 0x0F;
    if t == 0 || (t == 15 && !v5) {
        return Err(Rej::Header);
    }
    if t != 3 {
        if spec::fixed_flags(t, v5) != Some(flags) {
            return Err(Rej::Header);
        }
    } else if (flags >> 1) & 3 == 3 {
        return Err(Rej::Qos);
    }
    let mut r = R { b: &fr[1 + n..], p: 0 };
    let rl = rl as usize;
    let a = match t {
        1 => {
            let name = r.bin()?;
            let level = r.u8()?;
            let expect: &[(&[u8], u8)] = if v5 { &[(b"MQTT", 5)] } else { &[(b"MQIsdp", 3), (b"MQTT", 4)] };
            if !expect.iter().any(|(nm, lv)| *nm == name.0.as_slice() && *lv == level) {
                return Err(Rej::Protocol);
            }
            let fl = r.u8()?;
            if fl & 1 != 0 {
                return Err(Rej::Flags);
            }
            let has_will = fl & 0x04 != 0;
            let wqos = (fl >> 3) & 3;
            if has_will {
                if wqos == 3 {
                    return Err(Rej::Qos);
                }
            } else if wqos != 0 {
                return Err(Rej::Flags);
            }
            let keep_alive = r.u16()?;
            let props = if v5 { dec_props(&mut r, 1)? } else { vec![] };
            let client_id = r.str()?;
            let will = if has_will {
                let wprops = if v5 { dec_props(&mut r, spec::WILL)? } else { vec![] };
                let topic = r.topic_name()?;
                let payload = r.bin()?;
                payload_format_ok(&wprops, &payload.0)?;
                Some(WillA { qos: wqos, retain: fl & 0x20 != 0, props: wprops, topic, payload })
            } else {
                None
            };
            let username = if fl & 0x80 != 0 { Some(r.str()?) } else { None };
            let password = if fl & 0x40 != 0 { Some(r.bin()?) } else { None };
            r.end()?;
            Ast::Connect(Box::new(ConnectA {
                proto_name: name,
                level,
                clean: fl & 0x02 != 0,
                keep_alive,
                props,
                client_id,
                will,
                username,
                password,
            }))
        }
        2 => {
            let f = r.u8()?;
            if f > 1 {
                return Err(Rej::Flags);
            }
            let c = r.u8()?;
            let code = if v5 {
                code_ok(2, c)?
            } else if c <= 5 {
                c
            } else {
                return Err(Rej::Code);
            };
            let props = if v5 { dec_props(&mut r, 2)? } else { vec![] };
            r.end()?;
            Ast::Connack { sp: f == 1, code, props }
        }
        3 => {
            let qos = (flags >> 1) & 3;
            let topic = r.topic_name()?;
            let pid = if qos > 0 { Some(r.pid()?) } else { None };
            let props = if v5 { dec_props(&mut r, 3)? } else { vec![] };
            let payload = Bs(r.take(r.left())?.to_vec());
            payload_format_ok(&props, &payload.0)?;
            Ast::Publish { dup: flags & 8 != 0, qos, retain: flags & 1 != 0, topic, pid, props, payload }
        }
        4..=7 => {
            let pid = r.pid()?;
            let (code, props) = if !v5 || rl == 2 {
                (0, vec![])
            } else {
                let c = code_ok(t, r.u8()?)?;
                let p = if rl >= 4 { dec_props(&mut r, t)? } else { vec![] };
                (c, p)
            };
            r.end()?;
            Ast::Ack { kind: t, pid, code, props }
        }
        8 => {
            let pid = r.pid()?;
            let props = if v5 { dec_props(&mut r, 8)? } else { vec![] };
            if r.left() == 0 {
                return Err(Rej::Empty);
            }
            let mut topics = Vec::new();
            while r.left() > 0 {
                let f = r.filter()?;
                let o = r.u8()?;
                if v5 {
                    if o & 0xC0 != 0 || o & 3 == 3 || (o >> 4) & 3 == 3 {
                        return Err(Rej::Flags);
                    }
                } else if o > 2 {
                    return Err(Rej::Qos);
                }
                topics.push((f, o));
            }
            Ast::Subscribe { pid, props, topics }
        }
        9 => {
            let pid = r.pid()?;
            let props = if v5 { dec_props(&mut r, 9)? } else { vec![] };
            let mut codes = Vec::new();
            while r.left() > 0 {
                let c = r.u8()?;
                if v5 {
                    code_ok(9, c)?;
                } else if !spec::V3_SUBACK_CODES.contains(&c) {
                    return Err(Rej::Code);
                }
                codes.push(c);
            }
            Ast::Suback { pid, props, codes }
        }
        10 => {
            let pid = r.pid()?;
            let props = if v5 { dec_props(&mut r, 10)? } else { vec![] };
            if r.left() == 0 {
                return Err(Rej::Empty);
            }
            let mut topics = Vec::new();
            while r.left() > 0 {
                topics.push(r.filter()?);
            }
            Ast::Unsubscribe { pid, props, topics }
        }
        11 => {
            let pid = r.pid()?;
            let mut codes = Vec::new();
            let props = if v5 {
                let p = dec_props(&mut r, 11)?;
                while r.left() > 0 {
                    codes.push(code_ok(11, r.u8()?)?);
                }
                p
            } else {
                vec![]
            };
            r.end()?;
            Ast::Unsuback { pid, props, codes }
        }
        12 => {
            r.end()?;
            Ast::Pingreq
        }
        13 => {
            r.end()?;
            Ast::Pingresp
        }
        14 => {
            if !v5 || rl == 0 {
                r.end()?;
                Ast::Disconnect { code: 0, props: vec![] }
            } else {
                let code = code_ok(14, r.u8()?)?;
                let props = if rl >= 2 { dec_props(&mut r, 14)? } else { vec![] };
                r.end()?;
                Ast::Disconnect { code, props }
            }
        }
        15 => {
            if rl == 0 {
                Ast::Auth { code: 0, props: vec![] }
            } else {
                let code = code_ok(15, r.u8()?)?;
                let props = dec_props(&mut r, 15)?;
                r.end()?;
                Ast::Auth { code, props }
            }
        }
        _ => return Err(Rej::Header),
    };
    Ok(a)
}

#[cfg(test)]
mod tests {
    use super::*;
    use crate::gen;
    use crate::rng::Rng;

    #[test]
    fn ref_roundtrip() {
        for seed in 0..3000u64 {
            let mut rng = Rng::new(seed);
            let sw = gen::swarm(&mut rng, false);
            let a = gen::gen_packet(&mut rng, &sw);
            for spell in 0..3 {
                let st = Style { spell, shuffle: seed, ..Style::default() };
                let e = ref_encode(&a, sw.fam, &st);
                let d = ref_decode(sw.fam, &e.bytes);
                assert_eq!(d.as_ref().map(|x| x.canon()), Ok(a.canon()), "seed {seed} spell {spell}");
            }
        }
    }
}
