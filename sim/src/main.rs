#![allow(dead_code)]
mod ast;
mod bridge;
mod case;
mod fam;
mod fe;
mod gen;
mod inv;
mod malform;
mod minimise;
mod refcodec;
mod rng;
mod runner;
mod scn;
mod sim;
mod spec;

use std::collections::BTreeMap;
use std::path::{Path, PathBuf};
use std::process::{exit, Command};
use std::time::{Duration, Instant};

use serde_json::{json, Value};

use crate::case::Case;
use crate::scn::{Scenario, Tier};

fn profile() -> &'static str {
    if cfg!(debug_assertions) {
        "checked"
    } else {
        "release"
    }
}

fn root() -> PathBuf {
    PathBuf::from(std::env::var("VERIF_ROOT").unwrap_or_else(|_| "/verif".to_string()))
}

/// Where evidence and replay files go (scratch runs against patched trees set VERIF_OUT).
fn out_root() -> PathBuf {
    match std::env::var("VERIF_OUT") {
        Ok(v) if !v.is_empty() => PathBuf::from(v),
        _ => root(),
    }
}

fn env_u64(k: &str, d: u64) -> u64 {
    std::env::var(k).ok().and_then(|v| v.trim().parse().ok()).unwrap_or(d)
}

struct PropDef {
    id: &'static str,
    level: &'static str,
    /// also run the release-profile build (debug assertions and overflow checks off)
    both_profiles: bool,
    assumptions: &'static [&'static str],
}

const COMMON_ASSUMPTIONS: &[&str] = &[
    "sampling, not proof: seeded search over simulated runs plus the position sweeps stated in coverage.rule",
    "simulated transports, executor/waker and the reference model are harness code (stubs); every encoder/decoder entry point, tokio read_exact/write_all and futures-lite block_on are the real code",
    "the library is single-threaded and clock-free; simulated time is the step counter of the simulator",
];

fn props() -> Vec<PropDef> {
    vec![
        PropDef { id: "C01", level: "exploration", both_profiles: false, assumptions: &["library PartialEq on packets is used for equality, cross-checked through the neutral AST"] },
        PropDef { id: "C02", level: "exploration", both_profiles: true, assumptions: &[] },
        PropDef { id: "C03", level: "exploration", both_profiles: false, assumptions: &["panics are caught with catch_unwind in a build with debug assertions and overflow checks; process-level deaths would abort the check (exit 2)"] },
        PropDef { id: "C04", level: "exploration", both_profiles: false, assumptions: &["the reference decoder and the pinned leniency list of DESIGN.md 4.1 are the trusted base"] },
        PropDef { id: "C05", level: "fault_enumeration", both_profiles: false, assumptions: &["schedule sweep is complete per case for frames <= 64 bytes, field-boundary positions beyond"] },
        PropDef { id: "C06", level: "exploration", both_profiles: false, assumptions: &[] },
        PropDef { id: "C07", level: "fault_enumeration", both_profiles: false, assumptions: &["cut-position sweep is complete per packet up to 2,048 bytes, boundary positions beyond"] },
        PropDef { id: "C08", level: "exploration", both_profiles: false, assumptions: &[] },
        PropDef { id: "C09", level: "exploration", both_profiles: true, assumptions: &[] },
        PropDef { id: "C10", level: "exploration", both_profiles: false, assumptions: &["the reference decoder written from the OASIS texts is the trusted base"] },
        PropDef { id: "C11", level: "exploration", both_profiles: true, assumptions: &[] },
        PropDef { id: "C12", level: "exploration", both_profiles: false, assumptions: &[] },
        PropDef { id: "C13", level: "exploration", both_profiles: false, assumptions: &[] },
        PropDef { id: "C14", level: "fault_enumeration", both_profiles: false, assumptions: &["fault-position sweep is complete per packet up to 2,048 bytes, boundary positions beyond"] },
        PropDef { id: "C20", level: "exploration", both_profiles: false, assumptions: &["expected errors come from the harness's own catalogue"] },
    ]
}

#[derive(Clone, Debug)]
struct Known {
    status: String,
    property: String,
    signature: String,
    what: String,
}

fn load_known() -> Vec<Known> {
    let p = root().join("known_findings.jsonl");
    let Ok(text) = std::fs::read_to_string(&p) else { return vec![] };
    let mut v = Vec::new();
    for line in text.lines() {
        let line = line.trim();
        if line.is_empty() || line.starts_with('#') {
            continue;
        }
        match serde_json::from_str::<Value>(line) {
            Ok(j) => v.push(Known {
                status: j["status"].as_str().unwrap_or("").to_string(),
                property: j["property"].as_str().unwrap_or("").to_string(),
                signature: j["signature"].as_str().unwrap_or("").to_string(),
                what: j["what"].as_str().unwrap_or("").to_string(),
            }),
            Err(e) => {
                eprintln!("harness error: bad line in known_findings.jsonl: {e}");
                exit(2);
            }
        }
    }
    v
}

fn scenario_by_name(name: &str) -> Option<Scenario> {
    scn::all().into_iter().find(|s| s.name == name)
}

fn usage() -> ! {
    eprintln!("usage: mqtt-sim check <Cxx> <quick|thorough> [--part] | replay <file> [--verify] | selftest-determinism [--fast] | list | gen <scenario> <idx>");
    exit(2);
}

extern "C" {
    fn mallopt(param: i32, value: i32) -> i32;
}

/// glibc raises its mmap threshold dynamically (up to 32 MiB) after large blocks are freed; the
/// multi-megabyte frames of the larger size classes are then served from the per-thread arenas,
/// which fragment and are never trimmed: a long thorough run grew to tens of GiB. Pin the
/// threshold so that every large buffer is mapped and unmapped individually.
fn tune_allocator() {
    const M_TRIM_THRESHOLD: i32 = -1;
    const M_MMAP_THRESHOLD: i32 = -3;
    const M_ARENA_MAX: i32 = -8;
    // Miri cannot call into the C allocator API
    if cfg!(miri) {
        return;
    }
    unsafe {
        mallopt(M_MMAP_THRESHOLD, 256 * 1024);
        mallopt(M_TRIM_THRESHOLD, 1024 * 1024);
        mallopt(M_ARENA_MAX, 16);
    }
}

fn main() {
    tune_allocator();
    fe::install_panic_hook();
    let args: Vec<String> = std::env::args().skip(1).collect();
    if args.is_empty() {
        usage();
    }
    match args[0].as_str() {
        "check" => {
            if args.len() < 3 {
                usage();
            }
            let tier = match args[2].as_str() {
                "quick" => Tier::Quick,
                "thorough" => Tier::Thorough,
                _ => usage(),
            };
            let part = args.iter().any(|a| a == "--part");
            if part || args.iter().any(|a| a == "--inproc") {
                exit(cmd_check(&args[1], tier, part));
            }
            exit(supervise(&args[1], tier));
        }
        "replay" => {
            if args.len() < 2 {
                usage();
            }
            let verify = args.iter().any(|a| a == "--verify");
            exit(cmd_replay(Path::new(&args[1]), verify));
        }
        "selftest-determinism" => {
            let fast = args.iter().any(|a| a == "--fast");
            exit(cmd_determinism(fast));
        }
        "witness" => {
            // internal: print the batch witness of a scenario for the determinism self-test
            let s = scenario_by_name(&args[1]).unwrap_or_else(|| usage());
            let runs: u64 = args[2].parse().unwrap();
            let jobs: usize = args[3].parse().unwrap();
            let seed = env_u64("VERIF_SEED", 1);
            let b = runner::run_batch(&s, seed, Tier::Quick, runs, None, jobs);
            println!("{} {:016x} {} {}", s.name, b.witness, b.runs, b.found.len());
            exit(0);
        }
        "mini" | "probe" => {
            // sequential, single-threaded execution of run indices [start, start+count) of one
            // scenario: used under Miri ("mini") and by the supervisor's bisection ("probe")
            let s = scenario_by_name(&args[1]).unwrap_or_else(|| usage());
            let start: u64 = args[2].parse().unwrap();
            let count: u64 = args[3].parse().unwrap();
            let seed: u64 = args.get(4).and_then(|x| x.parse().ok()).unwrap_or(1);
            let tier = if args.iter().any(|a| a == "--thorough") { Tier::Thorough } else { Tier::Quick };
            let loud = args[0] == "mini";
            if args.iter().any(|a| a == "--tiny") {
                gen::TINY.store(true, std::sync::atomic::Ordering::Relaxed);
            }
            let mut bad = 0;
            for idx in start..start + count {
                if loud {
                    println!("MINI {idx}");
                }
                let (_, case) = runner::gen_case(&s, seed, tier, idx);
                let out = runner::run_case(s.run, &case, false);
                for v in &out.violations {
                    println!("MINI-VIOLATION {idx} {}\n  {}", v.signature, v.detail.replace('\n', "\n  "));
                    bad += 1;
                }
            }
            exit(if bad > 0 { 1 } else { 0 });
        }
        "list" => {
            for s in scn::all() {
                println!("{} {} quick_runs={}", s.property, s.name, s.quick_runs);
            }
            exit(0);
        }
        "gen" => {
            let s = scenario_by_name(&args[1]).unwrap_or_else(|| usage());
            let idx: u64 = args[2].parse().unwrap();
            let tier = if args.iter().any(|a| a == "--thorough") { Tier::Thorough } else { Tier::Quick };
            let (seed, case) = runner::gen_case(&s, env_u64("VERIF_SEED", 1), tier, idx);
            let text = serde_json::to_string_pretty(&case).unwrap();
            println!("seed={seed}\n{}", if text.len() > 20_000 { format!("{}…({} bytes)", &text[..text.char_indices().nth(6000).map(|x| x.0).unwrap_or(text.len())], text.len()) } else { text });
            if args.iter().any(|a| a == "--norun") {
                exit(0);
            }
            let out = runner::run_case(s.run, &case, true);
            for v in &out.violations {
                println!("violation {}: {}", v.signature, v.detail);
            }
            for l in out.trace.iter().take(200) {
                println!("  {l}");
            }
            exit(0);
        }
        _ => usage(),
    }
}

fn write_json(path: &Path, v: &Value) {
    if let Some(d) = path.parent() {
        let _ = std::fs::create_dir_all(d);
    }
    let tmp = path.with_extension("tmp");
    std::fs::write(&tmp, serde_json::to_string_pretty(v).unwrap()).expect("write json");
    std::fs::rename(&tmp, path).expect("rename json");
}

fn sanitize(s: &str) -> String {
    s.chars().map(|c| if c.is_ascii_alphanumeric() || c == '-' || c == '_' { c } else { '_' }).take(80).collect()
}

static HANG_THOROUGH: std::sync::atomic::AtomicBool = std::sync::atomic::AtomicBool::new(false);

/// Watchdog verdict (runner::HANG_HOOK): a worker made no progress for VERIF_HANG_S seconds inside
/// one sub-evaluation of run `idx`: a library call that does not return.
fn on_hang(scn_name: &str, idx: u64) {
    let seed = env_u64("VERIF_SEED", 1);
    let tier = if HANG_THOROUGH.load(std::sync::atomic::Ordering::Relaxed) { Tier::Thorough } else { Tier::Quick };
    let Some(s) = scn::all().into_iter().find(|s| s.name == scn_name) else { return };
    let prop = s.property;
    let (rseed, case) = runner::gen_case(&s, seed, tier, idx);
    let sig = format!("{prop}:non-termination");
    let hang_s = env_u64("VERIF_HANG_S", 600);
    let path = out_root().join("replays").join(prop).join(format!("{}-{}-{}.json", sanitize(&sig), rseed, profile()));
    write_json(&path, &json!({
        "property": prop, "scenario": s.name, "profile": profile(), "signature": sig, "hang": true,
        "thorough": tier == Tier::Thorough,
        "master_seed": seed, "seed": rseed, "run_index": idx, "run_count": 1, "case": case,
        "detail": format!("run index {idx} of this scenario made no progress for {hang_s} s inside one library call (sub-evaluations normally take milliseconds): a decoder or encoder entry point does not terminate on this case"),
    }));
    println!("VIOLATION property={prop} replay={}", path.display());
    println!("  signature: {sig}");
    println!("  run_index={idx} seed={rseed} scenario={} profile={}: no progress for {hang_s} s inside one library call", s.name, profile());
    write_min_evidence(prop, tier, 1, "non-termination detected by the watchdog");
    std::process::exit(1);
}

fn cmd_check(prop: &str, tier: Tier, part: bool) -> i32 {
    let started = Instant::now();
    HANG_THOROUGH.store(tier == Tier::Thorough, std::sync::atomic::Ordering::Relaxed);
    let _ = runner::HANG_HOOK.set(on_hang);
    let Some(def) = props().into_iter().find(|p| p.id == prop) else {
        eprintln!("harness error: unknown or unclaimed property {prop}");
        return 2;
    };
    let scenarios: Vec<Scenario> = scn::all().into_iter().filter(|s| s.property == prop).collect();
    if scenarios.is_empty() {
        eprintln!("harness error: no scenario registered for {prop}");
        return 2;
    }
    let seed = env_u64("VERIF_SEED", 1);
    let jobs = env_u64("VERIF_JOBS", 16) as usize;
    let budget_s = env_u64("VERIF_BUDGET_S", 300);
    println!("VERIF_SEED={seed} property={prop} tier={tier:?} profile={} jobs={jobs}", profile());
    let known = load_known();
    let total_weight: u32 = scenarios.iter().map(|s| s.weight).sum();

    let mut evaluations = 0u64;
    let mut distinct = 0u64;
    let mut runs = 0u64;
    let mut steps = 0u64;
    let mut stats = sim::Stats::default();
    let mut probes: BTreeMap<String, u64> = BTreeMap::new();
    let mut loghashes = 0u64;
    let mut samples: Vec<Value> = Vec::new();
    let mut per_scn: Vec<Value> = Vec::new();
    let mut rules: Vec<String> = Vec::new();
    let mut violations = 0u64;
    let mut known_hit: BTreeMap<String, (String, u64)> = BTreeMap::new();
    let mut exit_code = 0;

    for s in &scenarios {
        let both = def.both_profiles;
        let share = f64::from(s.weight) / f64::from(total_weight.max(1));
        let budget = match tier {
            Tier::Quick => None,
            Tier::Thorough => {
                let mut b = budget_s as f64 * share;
                if both {
                    b /= 2.0;
                }
                Some(Duration::from_secs_f64(b.max(1.0)))
            }
        };
        let b = runner::run_batch(s, seed, tier, s.quick_runs, budget, jobs);
        evaluations += b.evals;
        distinct += b.distinct_nontrivial;
        runs += b.runs;
        steps += b.steps;
        stats.add(&b.stats);
        loghashes += b.distinct_loghashes;
        for (k, v) in &b.probes {
            *probes.entry(k.clone()).or_insert(0) += v;
        }
        // samples: actual cases of this run; very large ones are summarised so the evidence stays readable
        let mut taken = 0;
        for c in b.samples.iter() {
            let j = json!(c);
            let text = j.to_string();
            if text.len() <= 6000 {
                samples.push(json!({"scenario": s.name, "case": j}));
                taken += 1;
            } else if taken == 0 {
                samples.push(json!({"scenario": s.name, "case_summary": format!("{} packets, family {:?}, serialised case is {} bytes: {}…", c.packets.len(), c.fam, text.len(), &text[..text.char_indices().nth(600).map(|x| x.0).unwrap_or(text.len())])}));
                taken += 1;
            }
            if taken >= 3 {
                break;
            }
        }
        rules.push(format!("{}: {}", s.name, s.rule));
        per_scn.push(json!({
            "scenario": s.name, "runs": b.runs, "evaluations": b.evals,
            "distinct_nontrivial": b.distinct_nontrivial, "wall_s": b.wall_s,
            "distinct_event_log_hashes": b.distinct_loghashes, "violating_runs": b.found.len(),
            "profile": profile(), "slowest_run": {"run_index": b.slowest.0, "ms": b.slowest.1 as u64},
        }));
        // triage what was found: known findings vs new violations
        let mut seen_sig: Vec<String> = Vec::new();
        for f in &b.found {
            if seen_sig.contains(&f.signature) {
                continue;
            }
            seen_sig.push(f.signature.clone());
            if let Some(k) = known.iter().find(|k| k.status == "known" && k.property == prop && k.signature == f.signature) {
                let e = known_hit.entry(k.signature.clone()).or_insert((k.what.clone(), 0));
                e.1 += b.found.iter().filter(|x| x.signature == f.signature).count() as u64;
                // development aid (off by default): write the minimised witness of a listed finding
                if std::env::var("VERIF_WRITE_WITNESS").is_ok() {
                    let wpath = root().join("known").join(format!("{}.json", sanitize(&k.signature)));
                    if !wpath.exists() {
                        let (min_case, _) = minimise::minimise(&f.case, &f.signature, s.run, 2000);
                        let out = runner::run_case(s.run, &min_case, true);
                        write_json(&wpath, &json!({
                            "property": prop, "scenario": s.name, "profile": profile(), "signature": f.signature,
                            "case": min_case, "log_hash": format!("{:016x}", out.hash),
                            "detail": out.violations.iter().find(|v| v.signature == f.signature).map(|v| v.detail.clone()),
                        }));
                    }
                }
                continue;
            }
            violations += 1;
            if violations > 5 {
                println!("further violation (not minimised): signature {} run_index={} seed={}", f.signature, f.idx, f.seed);
                if exit_code == 0 {
                    exit_code = 1;
                }
                continue;
            }
            // minimise, write the replay file, verify it reproduces in a fresh process
            let path = out_root().join("replays").join(prop).join(format!("{}-{}-{}.json", sanitize(&f.signature), f.seed, profile()));
            let exe = std::env::current_exe().unwrap();
            let attempt = |case: &Case, spent: usize, note: &str| -> (bool, String) {
                let out = runner::run_case(s.run, case, true);
                let detail = out
                    .violations
                    .iter()
                    .find(|v| v.signature == f.signature)
                    .map(|v| v.detail.clone())
                    .unwrap_or_else(|| f.detail.clone());
                let replay = json!({
                    "property": prop, "scenario": s.name, "profile": profile(), "signature": f.signature,
                    "master_seed": seed, "seed": f.seed, "run_index": f.idx, "minimise_candidates": spent,
                    "case": case, "original_case": if *case == f.case { Value::Null } else { json!(f.case) },
                    "detail": detail, "log_hash": format!("{:016x}", out.hash), "log": out.trace, "note": note,
                });
                write_json(&path, &replay);
                let st = Command::new(&exe).arg("replay").arg(&path).arg("--verify").output();
                (matches!(&st, Ok(o) if o.status.code() == Some(1)), detail)
            };
            let (min_case, spent) = minimise::minimise(&f.case, &f.signature, s.run, 2000);
            let (mut reproduced, mut detail) = attempt(&min_case, spent, "");
            if !reproduced {
                // fall back to the case exactly as generated
                let r = attempt(&f.case, 0, "minimised case did not replay; this is the case as generated");
                reproduced = r.0;
                detail = r.1;
            }
            if !reproduced {
                // The simulator is deterministic on a tree where the property holds (selftest-determinism);
                // an outcome that changes between two executions of the same case means the library's
                // behaviour itself is not a function of its input (e.g. it reads uninitialised memory).
                let _ = attempt(&f.case, 0, "NOT REPRODUCIBLE: the same case gives different outcomes in different processes; the library's result depends on something other than its input (uninitialised memory?)");
                detail = format!("{detail}\n  (outcome is not reproducible across processes: the decoder's result depends on something other than the bytes and the schedule)");
            }
            println!("VIOLATION property={prop} replay={}", path.display());
            println!("  signature: {}", f.signature);
            println!("  run_index={} seed={} profile={} (minimised with {spent} candidate runs)", f.idx, f.seed, profile());
            for line in detail.lines() {
                println!("  {line}");
            }
            if exit_code == 0 {
                exit_code = 1;
            }
        }
    }

    // release-profile leg, as a child process of the checked build
    let mut release_part: Option<Value> = None;
    let mut release_known: BTreeMap<String, u64> = BTreeMap::new();
    if def.both_profiles && !part && profile() == "checked" {
        let exe = std::env::current_exe().unwrap();
        let rel = exe.parent().unwrap().parent().unwrap().join("release").join("mqtt-sim");
        if rel.exists() {
            let out = Command::new(&rel)
                .args(["check", prop, if tier == Tier::Quick { "quick" } else { "thorough" }, "--part"])
                .output()
                .expect("spawn release leg");
            print!("{}", String::from_utf8_lossy(&out.stdout));
            eprint!("{}", String::from_utf8_lossy(&out.stderr));
            let code = out.status.code().unwrap_or(2);
            if code != 0 && (exit_code == 0 || code == 2) {
                exit_code = code;
            }
            let p = out_root().join("evidence").join(format!(".{prop}.release.part.json"));
            release_part = std::fs::read_to_string(&p).ok().and_then(|t| serde_json::from_str(&t).ok());
            if let Some(rp) = &release_part {
                if let Some(a) = rp["coverage"]["known_findings_hit"].as_array() {
                    for k in a {
                        if let (Some(sg), Some(n)) = (k["signature"].as_str(), k["runs"].as_u64()) {
                            *release_known.entry(sg.to_string()).or_insert(0) += n;
                        }
                    }
                }
            }
            let _ = std::fs::remove_file(&p);
        } else {
            eprintln!("harness error: release build {} missing", rel.display());
            exit_code = 2;
        }
    }

    // every listed known finding is re-confirmed from its committed witness case, so the line below
    // is printed from an observation of this run, not from the list alone
    if !part {
        for k in known.iter().filter(|k| k.status == "known" && k.property == prop) {
            let wpath = root().join("known").join(format!("{}.json", sanitize(&k.signature)));
            let confirmed = match std::fs::read_to_string(&wpath).ok().and_then(|t| serde_json::from_str::<Value>(&t).ok()) {
                Some(j) => {
                    let want_profile = j["profile"].as_str().unwrap_or("checked").to_string();
                    if want_profile != profile() {
                        let exe = std::env::current_exe().unwrap();
                        let other = exe.parent().unwrap().parent().unwrap().join(&want_profile).join("mqtt-sim");
                        Command::new(other).arg("replay").arg(&wpath).arg("--verify").status().ok().and_then(|s| s.code()) == Some(1)
                    } else {
                        match serde_json::from_value::<Case>(j["case"].clone()) {
                            Ok(case) => scenario_by_name(&case.scenario)
                                .map(|s| runner::run_case(s.run, &case, false).violations.iter().any(|v| v.signature == k.signature))
                                .unwrap_or(false),
                            Err(_) => false,
                        }
                    }
                }
                None => false,
            };
            let hit = known_hit.get(&k.signature).map(|x| x.1).unwrap_or(0) + release_known.get(&k.signature).copied().unwrap_or(0);
            if confirmed || hit > 0 {
                println!("KNOWN-FINDING: property={prop} {} [signature {}; witness {}; hit in {hit} runs of this batch]", k.what, k.signature, if confirmed { "reproduced" } else { "missing" });
                known_hit.entry(k.signature.clone()).or_insert((k.what.clone(), 0));
            } else {
                println!("note: listed known finding {} no longer reproduces on this tree (neither its witness nor any run of this batch)", k.signature);
            }
        }
    }

    let wall = started.elapsed().as_secs_f64();
    let probes_at_zero: Vec<&str> = expected_probes(prop).iter().copied().filter(|p| !probes.contains_key(*p)).collect();
    let mut coverage = json!({
        "evaluations": evaluations,
        "distinct_nontrivial": distinct,
        "rule": rules.join(" | "),
        "samples": samples,
        "simulated_runs": runs,
        "runs_per_hour": if wall > 0.0 { (runs as f64 / wall * 3600.0) as u64 } else { 0 },
        "simulated_time_steps": steps,
        "faults_fired": {
            "short_read": stats.short_read, "read_pending": stats.read_pending, "spurious_poll": stats.spurious_poll,
            "timer_wake": stats.timer_wake, "cancel": stats.cancel, "eof": stats.eof, "read_err": stats.read_err,
            "short_write": stats.short_write, "write_pending": stats.write_pending, "write_err": stats.write_err,
            "write_zero": stats.write_zero, "eintr": stats.eintr,
        },
        "transport_events": {"reads": stats.reads, "writes": stats.writes, "polls": stats.polls},
        "probes": probes,
        "probes_at_zero": probes_at_zero,
        "distinct_event_log_hashes": loghashes,
        "profiles": [profile()],
        "scenarios": per_scn,
        "known_findings_hit": known_hit.iter().map(|(k, v)| json!({"signature": k, "what": v.0, "runs": v.1})).collect::<Vec<_>>(),
        "real_vs_stub": {
            "real": ["mqtt-proto encoders/decoders (all entry points used)", "tokio AsyncReadExt::read_exact / AsyncWriteExt::write_all", "futures-lite block_on", "std::io::Write::write_all"],
            "stub": ["SimReader/SimWriter/SimSink transports", "executor and waker", "reference encoder/decoder (reference peer)", "wire corruption stage"],
        },
    });
    if let Some(rp) = release_part {
        let c = coverage.as_object_mut().unwrap();
        c.insert("profiles".into(), json!(["checked", "release"]));
        if let Some(e) = rp["coverage"]["evaluations"].as_u64() {
            c.insert("evaluations_release_profile".into(), json!(e));
        }
        c.insert("release_profile".into(), rp["coverage"].clone());
        violations += rp["violations"].as_u64().unwrap_or(0);
    }
    let mut assumptions: Vec<String> = COMMON_ASSUMPTIONS.iter().map(|s| s.to_string()).collect();
    assumptions.extend(def.assumptions.iter().map(|s| s.to_string()));
    let ev = json!({
        "property_id": prop,
        "tier": if tier == Tier::Quick { "quick" } else { "thorough" },
        "seed": seed,
        "level": def.level,
        "coverage": coverage,
        "assumptions": assumptions,
        "wall_s": wall,
        "violations": violations,
    });
    let path = if part {
        out_root().join("evidence").join(format!(".{prop}.release.part.json"))
    } else {
        out_root().join("evidence").join(format!("{prop}.json"))
    };
    write_json(&path, &ev);
    println!(
        "{prop} [{}] runs={runs} evaluations={evaluations} distinct_nontrivial={distinct} violations={violations} known={} wall={wall:.1}s",
        profile(),
        known_hit.len()
    );
    exit_code
}

fn expected_probes(prop: &str) -> &'static [&'static str] {
    match prop {
        "C05" => &["resume_mid_varint", "resume_mid_body", "hdr_len_2", "hdr_len_3", "hdr_len_4", "hdr_len_5", "nonminimal_varint"],
        _ => &[],
    }
}

fn cmd_replay(path: &Path, verify: bool) -> i32 {
    let Ok(text) = std::fs::read_to_string(path) else {
        eprintln!("harness error: cannot read {}", path.display());
        return 2;
    };
    let j: Value = match serde_json::from_str(&text) {
        Ok(j) => j,
        Err(e) => {
            eprintln!("harness error: bad replay file: {e}");
            return 2;
        }
    };
    let case: Case = match serde_json::from_value(j["case"].clone()) {
        Ok(c) => c,
        Err(e) => {
            eprintln!("harness error: bad case in replay file: {e}");
            return 2;
        }
    };
    if j["hang"].as_bool() == Some(true) {
        // re-run that one run index in a child process; reproduced if it is still running after
        // VERIF_HANG_S seconds
        let scn_name = j["scenario"].as_str().unwrap_or("");
        let idx = j["run_index"].as_u64().unwrap_or(0).to_string();
        let ms = j["master_seed"].as_u64().unwrap_or(1).to_string();
        let exe = std::env::current_exe().unwrap();
        let mut c = Command::new(exe);
        c.args(["probe", scn_name, &idx, "1", &ms]);
        if j["thorough"].as_bool() == Some(true) {
            c.arg("--thorough");
        }
        let Ok(mut child) = c.spawn() else {
            eprintln!("harness error: cannot start the probe process");
            return 2;
        };
        let deadline = Instant::now() + Duration::from_secs(env_u64("VERIF_HANG_S", 600));
        loop {
            match child.try_wait() {
                Ok(Some(_)) => {
                    if !verify {
                        println!("not reproduced on this tree");
                    }
                    return 0;
                }
                Ok(None) if Instant::now() >= deadline => {
                    let _ = child.kill();
                    let _ = child.wait();
                    if !verify {
                        println!("VIOLATION property={} replay={}", case.property, path.display());
                        println!("  signature: {}", j["signature"].as_str().unwrap_or(""));
                    }
                    return 1;
                }
                Ok(None) => std::thread::sleep(Duration::from_millis(100)),
                Err(_) => return 2,
            }
        }
    }
    if j["miri"].as_bool() == Some(true) || j["process_death"].as_bool() == Some(true) {
        let scn_name = j["scenario"].as_str().unwrap_or("");
        let idx = j["run_index"].as_u64().unwrap_or(0).to_string();
        let ms = j["master_seed"].as_u64().unwrap_or(1).to_string();
        let died_or_ub = if j["miri"].as_bool() == Some(true) {
            let mut c = Command::new("cargo");
            c.current_dir(root().join("sim"))
                .args(["+nightly", "miri", "run", "--offline", "--quiet", "--target-dir", "target/miri", "--", "mini", scn_name, &idx, "1", &ms, "--tiny"])
                .env("MIRIFLAGS", "-Zmiri-disable-isolation");
            if j["thorough"].as_bool() == Some(true) {
                c.arg("--thorough");
            }
            !c.status().map(|s| s.success()).unwrap_or(true)
        } else {
            let exe = std::env::current_exe().unwrap();
            let cnt = j["run_count"].as_u64().unwrap_or(1).to_string();
            Command::new(exe).args(["probe", scn_name, &idx, &cnt, &ms]).status().map(|s| s.code().is_none()).unwrap_or(false)
        };
        if died_or_ub {
            if !verify {
                println!("VIOLATION property={} replay={}", case.property, path.display());
                println!("  signature: {}", j["signature"].as_str().unwrap_or(""));
            }
            return 1;
        }
        if !verify {
            println!("not reproduced on this tree");
        }
        return 0;
    }
    let want_profile = j["profile"].as_str().unwrap_or("checked");
    if want_profile != profile() {
        // hand over to the build the replay was recorded with
        let exe = std::env::current_exe().unwrap();
        let other = exe.parent().unwrap().parent().unwrap().join(want_profile).join("mqtt-sim");
        if other.exists() {
            let mut c = Command::new(other);
            c.arg("replay").arg(path);
            if verify {
                c.arg("--verify");
            }
            return c.status().ok().and_then(|s| s.code()).unwrap_or(2);
        }
    }
    let Some(s) = scenario_by_name(&case.scenario) else {
        eprintln!("harness error: unknown scenario {}", case.scenario);
        return 2;
    };
    let sig = j["signature"].as_str().unwrap_or("").to_string();
    let out = runner::run_case(s.run, &case, true);
    let hash = format!("{:016x}", out.hash);
    let hit = out.violations.iter().find(|v| v.signature == sig);
    if verify {
        return match hit {
            Some(_) if j["log_hash"].as_str() == Some(hash.as_str()) => 1,
            Some(_) => {
                eprintln!("replay reproduced the violation but with a different event log ({hash} vs {})", j["log_hash"]);
                3
            }
            None => 0,
        };
    }
    println!("replay {} property={} scenario={} profile={}", path.display(), case.property, case.scenario, profile());
    println!("event log hash {hash} (recorded {})", j["log_hash"].as_str().unwrap_or("?"));
    for l in out.trace.iter().take(400) {
        println!("  {l}");
    }
    match hit {
        Some(v) => {
            println!("VIOLATION property={} replay={}", case.property, path.display());
            println!("  signature: {}", v.signature);
            for line in v.detail.lines() {
                println!("  {line}");
            }
            1
        }
        None => {
            for v in &out.violations {
                println!("other violation: {} {}", v.signature, v.detail);
            }
            println!("not reproduced: the recorded violation {sig} does not occur on this tree");
            0
        }
    }
}

/// Each scenario: N seeds, executed in separate processes at two worker counts, twice each; the
/// per-batch witness (fnv over run index and event-log hash, in index order) must be identical.
fn cmd_determinism(fast: bool) -> i32 {
    let exe = std::env::current_exe().unwrap();
    let runs = if fast { 400 } else { 2000 };
    let mut bad = 0;
    for s in scn::all() {
        let mut seen: Vec<String> = Vec::new();
        for jobs in ["1", "16", "5", "16"] {
            let out = Command::new(&exe).args(["witness", s.name, &runs.to_string(), jobs]).output().expect("spawn");
            seen.push(String::from_utf8_lossy(&out.stdout).trim().to_string());
        }
        if seen.iter().any(|x| *x != seen[0]) || seen[0].is_empty() {
            println!("NONDETERMINISM in {}: {:?}", s.name, seen);
            bad += 1;
        } else {
            println!("deterministic: {}", seen[0]);
        }
    }
    if bad > 0 {
        2
    } else {
        0
    }
}


/// Run the check in a child process. A child that dies by a signal (abort, stack overflow,
/// allocation failure, OOM kill) is a violation in its own right: the run index is isolated
/// by bisection with sequential `probe` children and written as a replay file.
fn supervise(prop: &str, tier: Tier) -> i32 {
    let exe = std::env::current_exe().unwrap();
    let tier_s = if tier == Tier::Quick { "quick" } else { "thorough" };
    let st = Command::new(&exe).args(["check", prop, tier_s, "--inproc"]).status();
    let mut code = match st {
        Ok(s) => match s.code() {
            Some(c) => c,
            None => {
                println!("the check process died ({s}); isolating the run that kills it");
                return isolate_death(prop, tier, &format!("{s}"));
            }
        },
        Err(e) => {
            eprintln!("harness error: cannot spawn the check: {e}");
            return 2;
        }
    };
    // Miri leg: always in thorough; in quick by default for C03 (whose statement includes memory
    // safety), opt-in for C05 (VERIF_MIRI=1); VERIF_MIRI=0 switches it off
    let miri_env = std::env::var("VERIF_MIRI").ok();
    let want_miri = match miri_env.as_deref() {
        Some("0") => false,
        Some("1") => true,
        _ => tier == Tier::Thorough || prop == "C03",
    };
    if code == 0 && want_miri {
        let c = miri_leg(prop, tier);
        if c != 0 {
            code = c;
        }
    }
    code
}

fn probe_dies(exe: &Path, scn: &str, start: u64, count: u64, seed: u64, tier: Tier) -> bool {
    let mut c = Command::new(exe);
    c.args(["probe", scn, &start.to_string(), &count.to_string(), &seed.to_string()]);
    if tier == Tier::Thorough {
        c.arg("--thorough");
    }
    match c.output() {
        Ok(o) => o.status.code().is_none(),
        Err(_) => false,
    }
}

fn isolate_death(prop: &str, tier: Tier, how: &str) -> i32 {
    let exe = std::env::current_exe().unwrap();
    let seed = env_u64("VERIF_SEED", 1);
    for s in scn::all().into_iter().filter(|s| s.property == prop) {
        let total = if tier == Tier::Quick { s.quick_runs } else { s.quick_runs * 4 };
        // find a dying window by chunks, then bisect inside it
        let chunk = (total / 64).max(1);
        let mut lo = None;
        let mut a = 0;
        let scan_deadline = Instant::now() + Duration::from_secs(env_u64("VERIF_BISECT_S", 240));
        while a < total && Instant::now() < scan_deadline {
            let n = chunk.min(total - a);
            if probe_dies(&exe, s.name, a, n, seed, tier) {
                lo = Some((a, n));
                break;
            }
            a += n;
        }
        let Some((mut start, mut count)) = lo else { continue };
        // bisection is bounded in wall-clock time; an unfinished bisection reports the window
        let deadline = Instant::now() + Duration::from_secs(env_u64("VERIF_BISECT_S", 240));
        while count > 1 && Instant::now() < deadline {
            let half = count / 2;
            if probe_dies(&exe, s.name, start, half, seed, tier) {
                count = half;
            } else {
                start += half;
                count -= half;
            }
        }
        let (rseed, case) = runner::gen_case(&s, seed, tier, start);
        let sig = format!("{prop}:process-death");
        let path = out_root().join("replays").join(prop).join(format!("{}-{}-{}.json", sanitize(&sig), rseed, profile()));
        write_json(&path, &json!({
            "property": prop, "scenario": s.name, "profile": profile(), "signature": sig, "process_death": true,
            "master_seed": seed, "seed": rseed, "run_index": start, "run_count": count, "case": case,
            "detail": format!("running run indices {start}..{} of this scenario kills the process ({how}): abort, stack overflow or failed allocation inside the library", start + count),
        }));
        println!("VIOLATION property={prop} replay={}", path.display());
        println!("  signature: {sig}");
        println!("  run_index={start} seed={rseed} scenario={} profile={}: the process dies ({how})", s.name, profile());
        write_min_evidence(prop, tier, 1, "process death isolated by bisection");
        return 1;
    }
    eprintln!("harness error: the check process died ({how}) but no single run reproduces it");
    2
}

fn write_min_evidence(prop: &str, tier: Tier, violations: u64, note: &str) {
    let level = props().into_iter().find(|p| p.id == prop).map(|p| p.level).unwrap_or("exploration");
    let ev = json!({
        "property_id": prop, "tier": if tier == Tier::Quick { "quick" } else { "thorough" }, "seed": env_u64("VERIF_SEED", 1),
        "level": level,
        "coverage": {"evaluations": 2, "distinct_nontrivial": 2, "rule": note, "samples": [note]},
        "assumptions": [note], "wall_s": 0.0, "violations": violations,
    });
    write_json(&out_root().join("evidence").join(format!("{prop}.json")), &ev);
}

/// Memory-safety leg: the same scenarios under Miri on a reduced budget (C03, C05).
fn miri_leg(prop: &str, tier: Tier) -> i32 {
    let scenarios: Vec<Scenario> = scn::all().into_iter().filter(|s| s.property == prop && (prop == "C03" || prop == "C05")).collect();
    if scenarios.is_empty() {
        return 0;
    }
    let seed = env_u64("VERIF_SEED", 1);
    let sim = root().join("sim");
    let n: u64 = env_u64("VERIF_MIRI_RUNS", if tier == Tier::Quick { if prop == "C03" { 96 } else { 150 } } else { 1500 });
    let jobs = env_u64("VERIF_JOBS", 16).max(1);
    let started = Instant::now();
    let mut status = "ok".to_string();
    let mut code = 0;
    let mut ran = 0u64;
    for s in &scenarios {
        // build once (sysroot, dependencies, this crate) before the shards start
        let _ = Command::new("cargo")
            .current_dir(&sim)
            .args(["+nightly", "miri", "run", "--offline", "--quiet", "--target-dir", "target/miri", "--", "mini", s.name, "0", "0"])
            .env("MIRIFLAGS", "-Zmiri-disable-isolation")
            .output();
        // shard the index range over `jobs` Miri processes
        let per = n.div_ceil(jobs);
        let mut children = Vec::new();
        for j in 0..jobs {
            let start = j * per;
            if start >= n {
                break;
            }
            let count = per.min(n - start);
            let mut c = Command::new("cargo");
            c.current_dir(&sim)
                .args(["+nightly", "miri", "run", "--offline", "--quiet", "--target-dir", "target/miri", "--"])
                .args(["mini", s.name, &start.to_string(), &count.to_string(), &seed.to_string(), "--tiny"])
                .env("MIRIFLAGS", "-Zmiri-disable-isolation")
                .stdout(std::process::Stdio::piped())
                .stderr(std::process::Stdio::piped());
            if tier == Tier::Thorough {
                c.arg("--thorough");
            }
            match c.spawn() {
                Ok(ch) => children.push((start, count, ch)),
                Err(e) => {
                    status = format!("skipped: cannot start cargo miri ({e})");
                }
            }
        }
        for (start, count, ch) in children {
            let out = match ch.wait_with_output() {
                Ok(o) => o,
                Err(_) => continue,
            };
            let so = String::from_utf8_lossy(&out.stdout).to_string();
            let se = String::from_utf8_lossy(&out.stderr).to_string();
            let last_idx = so.lines().filter_map(|l| l.strip_prefix("MINI ")).filter_map(|x| x.trim().parse::<u64>().ok()).last();
            ran += so.lines().filter(|l| l.starts_with("MINI ") && !l.starts_with("MINI-")).count() as u64;
            if out.status.success() {
                continue;
            }
            let ub = se.lines().find(|l| l.contains("Undefined Behavior") || l.contains("error:")).unwrap_or("").to_string();
            if se.contains("Undefined Behavior") || so.contains("MINI-VIOLATION") {
                let idx = last_idx.unwrap_or(start);
                let (rseed, case) = runner::gen_case(s, seed, tier, idx);
                let sig = if se.contains("Undefined Behavior") { format!("{prop}:miri:undefined-behavior") } else { format!("{prop}:miri:violation") };
                let path = out_root().join("replays").join(prop).join(format!("{}-{}-miri.json", sanitize(&sig), rseed));
                write_json(&path, &json!({
                    "property": prop, "scenario": s.name, "profile": "miri", "miri": true, "signature": sig,
                    "master_seed": seed, "seed": rseed, "run_index": idx, "thorough": tier == Tier::Thorough, "case": case,
                    "detail": format!("{ub}\n{}", se.lines().filter(|l| !l.trim().is_empty()).take(30).collect::<Vec<_>>().join("\n")),
                }));
                println!("VIOLATION property={prop} replay={}", path.display());
                println!("  signature: {sig}");
                println!("  run_index={idx} seed={rseed} scenario={} under Miri: {ub}", s.name);
                for l in se.lines().filter(|l| !l.trim().is_empty()).take(12) {
                    println!("  {l}");
                }
                for l in so.lines().filter(|l| l.starts_with("MINI-VIOLATION") || l.starts_with("  ")).take(8) {
                    println!("  {l}");
                }
                code = 1;
            } else if code == 0 {
                status = format!("skipped: Miri leg could not run (exit {:?}): {}", out.status.code(), se.lines().rev().find(|l| !l.trim().is_empty()).unwrap_or(""));
                let _ = count;
            }
        }
    }
    let wall = started.elapsed().as_secs_f64();
    println!("{prop} [miri] runs={ran} status={status} wall={wall:.1}s");
    // append the Miri leg to the evidence file written by the native run
    let path = out_root().join("evidence").join(format!("{prop}.json"));
    if let Some(mut ev) = std::fs::read_to_string(&path).ok().and_then(|t| serde_json::from_str::<Value>(&t).ok()) {
        if let Some(c) = ev["coverage"].as_object_mut() {
            c.insert("miri_leg".into(), json!({"runs": ran, "status": status, "wall_s": wall, "violations": if code == 1 { 1 } else { 0 }}));
        }
        if code == 1 {
            let v = ev["violations"].as_u64().unwrap_or(0) + 1;
            ev["violations"] = json!(v);
        }
        write_json(&path, &ev);
    }
    code
}
