//! Invariant monitor for decoded packets (C12): walks every field of a library packet and
//! checks what its type promises, using the library's own predicates and accessors.

use mqtt_proto::{v3, v5, Pid, QosPid, TopicFilter, TopicName};

fn text(out: &mut Vec<String>, what: &str, s: &str) {
    if std::str::from_utf8(s.as_bytes()).is_err() {
        out.push(format!("{what}: String holds invalid UTF-8: {:02x?}", &s.as_bytes()[..s.len().min(32)]));
    }
}

fn tname(out: &mut Vec<String>, what: &str, t: &TopicName) {
    let s: &str = t;
    text(out, what, s);
    if TopicName::is_invalid(s) {
        out.push(format!("{what}: topic name {s:?} fails TopicName::is_invalid"));
    }
    let _ = t.is_shared();
    let _ = t.is_sys();
}

fn tfilter(out: &mut Vec<String>, what: &str, t: &TopicFilter) {
    let s: &str = t;
    text(out, what, s);
    let (bad, sep) = TopicFilter::is_invalid(s);
    if bad {
        out.push(format!("{what}: topic filter {s:?} fails TopicFilter::is_invalid"));
        return;
    }
    // accessors must work and re-concatenate to the text
    let shared = t.is_shared();
    if shared != (sep > 0) {
        out.push(format!("{what}: is_shared()={shared} but validator reports separator {sep}"));
    }
    match (t.shared_group_name(), t.shared_filter(), t.shared_info()) {
        (Some(g), Some(f), Some((g2, f2))) => {
            if g != g2 || f != f2 || format!("$share/{g}/{f}") != s {
                out.push(format!("{what}: shared accessors ({g:?}, {f:?}) do not re-concatenate to {s:?}"));
            }
            if g.is_empty() || f.is_empty() {
                out.push(format!("{what}: empty share name or filter in {s:?}"));
            }
        }
        (None, None, None) => {
            if shared {
                out.push(format!("{what}: shared filter {s:?} has no accessors"));
            }
        }
        other => out.push(format!("{what}: inconsistent shared accessors {other:?}")),
    }
    let _ = t.is_sys();
}

fn pid(out: &mut Vec<String>, what: &str, p: Pid) {
    if p.value() == 0 {
        out.push(format!("{what}: packet identifier is 0"));
    }
}

fn qospid(out: &mut Vec<String>, what: &str, q: QosPid) {
    if let Some(p) = q.pid() {
        pid(out, what, p);
    }
}

pub fn v3(p: &v3::Packet) -> Vec<String> {
    let mut o = Vec::new();
    match p {
        v3::Packet::Connect(c) => {
            text(&mut o, "client_id", &c.client_id);
            if let Some(u) = &c.username {
                text(&mut o, "username", u);
            }
            if let Some(w) = &c.last_will {
                tname(&mut o, "will topic", &w.topic_name);
            }
            if c.protocol as u8 > 4 {
                o.push(format!("v3 CONNECT with protocol {:?}", c.protocol));
            }
        }
        v3::Packet::Publish(x) => {
            tname(&mut o, "topic", &x.topic_name);
            qospid(&mut o, "publish", x.qos_pid);
        }
        v3::Packet::Puback(x) | v3::Packet::Pubrec(x) | v3::Packet::Pubrel(x) | v3::Packet::Pubcomp(x) | v3::Packet::Unsuback(x) => {
            pid(&mut o, "ack", *x)
        }
        v3::Packet::Subscribe(s) => {
            pid(&mut o, "subscribe", s.pid);
            if s.topics.is_empty() {
                o.push("SUBSCRIBE without topics".into());
            }
            for (f, _) in &s.topics {
                tfilter(&mut o, "filter", f);
            }
        }
        v3::Packet::Unsubscribe(s) => {
            pid(&mut o, "unsubscribe", s.pid);
            if s.topics.is_empty() {
                o.push("UNSUBSCRIBE without topics".into());
            }
            for f in &s.topics {
                tfilter(&mut o, "filter", f);
            }
        }
        v3::Packet::Suback(s) => pid(&mut o, "suback", s.pid),
        _ => {}
    }
    o
}

fn users(o: &mut Vec<String>, u: &[v5::UserProperty]) {
    for x in u {
        text(o, "user property name", &x.name);
        text(o, "user property value", &x.value);
    }
}

fn ostr(o: &mut Vec<String>, what: &str, s: &Option<std::sync::Arc<String>>) {
    if let Some(s) = s {
        text(o, what, s);
    }
}

fn vbi(o: &mut Vec<String>, what: &str, v: Option<v5::VarByteInt>) {
    if let Some(v) = v {
        if v.value() >= 268_435_456 {
            o.push(format!("{what}: variable byte integer {} out of range", v.value()));
        }
    }
}

pub fn v5(p: &v5::Packet) -> Vec<String> {
    let mut o = Vec::new();
    match p {
        v5::Packet::Connect(c) => {
            text(&mut o, "client_id", &c.client_id);
            ostr(&mut o, "username", &c.username);
            ostr(&mut o, "auth_method", &c.properties.auth_method);
            users(&mut o, &c.properties.user_properties);
            if c.protocol as u8 != 5 {
                o.push(format!("v5 CONNECT with protocol {:?}", c.protocol));
            }
            if let Some(w) = &c.last_will {
                tname(&mut o, "will topic", &w.topic_name);
                ostr(&mut o, "will content type", &w.properties.content_type);
                if let Some(t) = &w.properties.response_topic {
                    tname(&mut o, "will response topic", t);
                }
                users(&mut o, &w.properties.user_properties);
                if w.properties.payload_is_utf8 == Some(true) && std::str::from_utf8(&w.payload).is_err() {
                    o.push("will payload flagged UTF-8 is not valid UTF-8".into());
                }
            }
        }
        v5::Packet::Connack(c) => {
            let q = &c.properties;
            ostr(&mut o, "assigned_client_id", &q.assigned_client_id);
            ostr(&mut o, "reason_string", &q.reason_string);
            ostr(&mut o, "response_info", &q.response_info);
            ostr(&mut o, "server_reference", &q.server_reference);
            ostr(&mut o, "auth_method", &q.auth_method);
            users(&mut o, &q.user_properties);
            if let Some(mq) = q.max_qos {
                if mq as u8 > 1 {
                    o.push(format!("Maximum QoS property {mq:?}"));
                }
            }
        }
        v5::Packet::Publish(x) => {
            tname(&mut o, "topic", &x.topic_name);
            qospid(&mut o, "publish", x.qos_pid);
            ostr(&mut o, "content_type", &x.properties.content_type);
            if let Some(t) = &x.properties.response_topic {
                tname(&mut o, "response topic", t);
            }
            users(&mut o, &x.properties.user_properties);
            vbi(&mut o, "subscription id", x.properties.subscription_id);
            if x.properties.payload_is_utf8 == Some(true) && std::str::from_utf8(&x.payload).is_err() {
                o.push("payload flagged UTF-8 is not valid UTF-8".into());
            }
        }
        v5::Packet::Puback(x) => {
            pid(&mut o, "puback", x.pid);
            ostr(&mut o, "reason_string", &x.properties.reason_string);
            users(&mut o, &x.properties.user_properties);
        }
        v5::Packet::Pubrec(x) => {
            pid(&mut o, "pubrec", x.pid);
            ostr(&mut o, "reason_string", &x.properties.reason_string);
            users(&mut o, &x.properties.user_properties);
        }
        v5::Packet::Pubrel(x) => {
            pid(&mut o, "pubrel", x.pid);
            ostr(&mut o, "reason_string", &x.properties.reason_string);
            users(&mut o, &x.properties.user_properties);
        }
        v5::Packet::Pubcomp(x) => {
            pid(&mut o, "pubcomp", x.pid);
            ostr(&mut o, "reason_string", &x.properties.reason_string);
            users(&mut o, &x.properties.user_properties);
        }
        v5::Packet::Subscribe(s) => {
            pid(&mut o, "subscribe", s.pid);
            vbi(&mut o, "subscription id", s.properties.subscription_id);
            users(&mut o, &s.properties.user_properties);
            if s.topics.is_empty() {
                o.push("SUBSCRIBE without topics".into());
            }
            for (f, _) in &s.topics {
                tfilter(&mut o, "filter", f);
            }
        }
        v5::Packet::Suback(s) => {
            pid(&mut o, "suback", s.pid);
            ostr(&mut o, "reason_string", &s.properties.reason_string);
            users(&mut o, &s.properties.user_properties);
        }
        v5::Packet::Unsubscribe(s) => {
            pid(&mut o, "unsubscribe", s.pid);
            users(&mut o, &s.properties.user_properties);
            if s.topics.is_empty() {
                o.push("UNSUBSCRIBE without topics".into());
            }
            for f in &s.topics {
                tfilter(&mut o, "filter", f);
            }
        }
        v5::Packet::Unsuback(s) => {
            pid(&mut o, "unsuback", s.pid);
            ostr(&mut o, "reason_string", &s.properties.reason_string);
            users(&mut o, &s.properties.user_properties);
        }
        v5::Packet::Disconnect(d) => {
            ostr(&mut o, "reason_string", &d.properties.reason_string);
            ostr(&mut o, "server_reference", &d.properties.server_reference);
            users(&mut o, &d.properties.user_properties);
        }
        v5::Packet::Auth(a) => {
            ostr(&mut o, "auth_method", &a.properties.auth_method);
            ostr(&mut o, "reason_string", &a.properties.reason_string);
            users(&mut o, &a.properties.user_properties);
        }
        v5::Packet::Pingreq | v5::Packet::Pingresp => {}
    }
    o
}
