//! C05 — poll decoder: schedule independence and cancellation safety.
//!
//! A case is one byte stream (a reference-encoded packet, possibly with a non-minimal header,
//! possibly corrupted, followed by a few bytes of the next frame) plus one random delivery
//! schedule. `run` computes the baseline (one uninterrupted read), then replays the stream under
//! (i) a systematic sweep of schedules and (ii) the case's random schedule, and checks every
//! clause of the property on each.

use std::rc::Rc;

use mqtt_proto::{GenericPollPacket, GenericPollPacketState};

use crate::ast::*;
use crate::case::*;
use crate::dispatch;
use crate::fam::Codec;
use crate::fe::*;
use crate::gen;
use crate::refcodec::{self, Style};
use crate::rng::Rng;
use crate::scn::common::*;
use crate::scn::{Scenario, Tier};
use crate::sim::*;
use crate::spec::{self, VarErr};

pub fn scenarios() -> Vec<Scenario> {
    vec![Scenario {
        property: "C05",
        name: "c05-sched",
        gen,
        run,
        quick_runs: 100_000,
        weight: 1,
        rule: "case = (stream, random schedule); non-trivial when the random schedule splits the stream into >= 2 reads or contains a Pending, or the sweep ran >= 3 schedules; distinct by case hash",
    }]
}

/// n[0]: 1 = run the systematic sweep as well; n[1]: size bound of the complete sweep
pub fn gen(rng: &mut Rng, tier: Tier, idx: u64) -> Case {
    let mut sw = gen::swarm(rng, tier == Tier::Thorough);
    // every type gets its turn
    let all = gen::all_types(sw.fam);
    if idx % 4 == 0 {
        sw.types = vec![all[(idx / 4) as usize % all.len()]];
    }
    if tier != Tier::Thorough {
        sw.max_frame = 16_384 + 16;
    }
    let mut c = Case::new("C05", "c05-sched", sw.fam, Front::P);
    let mut a = gen::gen_packet(rng, &sw);
    maybe_retarget(rng, &sw, &mut a, 24);
    gen::maybe_retarget_props(rng, sw.fam, &mut a, 40);
    c.style = Style {
        spell: rng.below(3) as u8,
        shuffle: if rng.chance(1, 3) { rng.next_u64() } else { 0 },
        rl_width: if rng.chance(1, 4) { rng.urange(2, 4) as u8 } else { 0 },
        plen_width: 0,
        stray_will_retain: false,
        pvar_width: 0,
    };
    let enc = refcodec::ref_encode(&a, sw.fam, &c.style);
    let bounds = span_bounds(&enc.spans);
    if rng.chance(1, 8) {
        // two aimed malformations at once: the reported error must still not depend on the schedule
        if let Some(f) = crate::malform::pair(&a, sw.fam, rng.next_u64()) {
            c.stream = Bs(f);
        }
    } else if rng.chance(1, 6) {
        // an aimed malformation from the catalogue (F12) instead of the valid frame
        let mals = crate::malform::enumerate(&a, sw.fam);
        if !mals.is_empty() {
            let m = &mals[rng.usize_below(mals.len())];
            c.stream = Bs(m.frame.clone());
        }
    }
    if c.stream.is_empty() {
        c.packets = vec![a];
    }
    if rng.chance(1, 3) {
        let n = rng.urange(1, 3);
        c.mutations = gen_mutations(rng, enc.bytes.len(), &bounds, n);
    }
    if rng.chance(1, 2) {
        // a few bytes of the following frame
        let n = rng.urange(1, 16);
        c.suffix = match rng.below(3) {
            0 => Bs(rng.bytes(n)),
            1 => Bs(vec![0xC0, 0x00, 0xD0, 0x00][..n.min(4)].to_vec()),
            _ => Bs(vec![0x30; n]),
        };
    }
    let total = enc.bytes.len() + c.suffix.len();
    let pp = *rng.pick(&[0u64, 50, 200, 500]);
    let (script, tail) = gen_read_script(rng, total, pp, &bounds);
    let cp = *rng.pick(&[0u64, 300, 1000]);
    c.cancel = gen_cancel(rng, &script, cp);
    c.read_script = script;
    c.read_tail = tail;
    c.reader_style = rng.below(3) as u8;
    // n[1]: frames up to this size get the complete position sweep
    c.n = vec![i64::from(rng.chance(1, 3)), if tier == Tier::Thorough { 256 } else { 64 }];
    c
}

pub fn build_stream(c: &Case) -> Vec<u8> {
    let mut s = if c.packets.is_empty() {
        c.stream.0.clone()
    } else {
        let mut v = Vec::new();
        for p in &c.packets {
            v.extend_from_slice(&refcodec::ref_encode(p, c.fam, &c.style).bytes);
        }
        v
    };
    apply_mutations(&mut s, &c.mutations);
    s.extend_from_slice(&c.suffix.0);
    if let Some(k) = c.cut {
        s.truncate(k);
    }
    s
}

pub fn run(c: &Case, trace: bool) -> RunOut {
    dispatch!(c.fam, run_g(c, trace))
}

fn sig(c: &Case, stream: &[u8], clause: &str) -> String {
    format!("C05:{}:{}:{}", if c.fam.is_v5() { "v5" } else { "v3" }, type_of_stream(stream), clause)
}

fn run_g<C: Codec>(c: &Case, trace: bool) -> RunOut {
    let mut out = RunOut::default();
    let stream = Rc::new(build_stream(c));
    let len = stream.len();

    // reference framing of the stream: where does the current frame end?
    let framing = spec::ref_frame(&stream);
    if let Ok((h, _)) = framing {
        match h {
            2 => out.probe("hdr_len_2"),
            3 => out.probe("hdr_len_3"),
            4 => out.probe("hdr_len_4"),
            _ => out.probe("hdr_len_5"),
        }
        if let Ok((_, n, false)) = spec::read_varint(&stream[1..]) {
            let _ = n;
            out.probe("nonminimal_varint");
        }
    }

    // baseline: one uninterrupted read
    let base = run_p::<C>(&stream, &[], 0, &[], &[], false, trace, &mut out);
    check_one::<C>(c, &stream, framing, &base, None, "baseline", &mut out);

    let mut schedules: Vec<(Vec<ReadEv>, usize, Vec<bool>, bool, String)> = Vec::new();
    // (ii) the random schedule of the case
    schedules.push((c.read_script.clone(), c.read_tail, c.cancel.clone(), false, "random".into()));
    // the same with state observation between polls
    if c.read_script.iter().any(|e| matches!(e, ReadEv::Pending(_))) {
        schedules.push((c.read_script.clone(), c.read_tail, c.cancel.clone(), true, "random+observe".into()));
    }
    // (i) sweep
    if c.n.first().copied().unwrap_or(0) == 1 {
        schedules.push((vec![], 1, vec![], false, "all-1".into()));
        let full = c.n.get(1).copied().unwrap_or(64).max(8) as usize;
        let positions: Vec<usize> = if len <= full {
            (1..len).collect()
        } else {
            let mut p: Vec<usize> = Vec::new();
            if let Some(a) = c.packets.first() {
                let enc = refcodec::ref_encode(a, c.fam, &c.style);
                for b in span_bounds(&enc.spans) {
                    for d in [b.saturating_sub(1), b, b + 1] {
                        if d > 0 && d < len {
                            p.push(d);
                        }
                    }
                }
            }
            p.extend([1, 2, 3, 4, 5, 6, len - 1, len - 2]);
            p.retain(|x| *x > 0 && *x < len);
            p.sort_unstable();
            p.dedup();
            if p.len() > 96 {
                let step = p.len() / 96 + 1;
                p = p.into_iter().step_by(step).collect();
            }
            p
        };
        for k in &positions {
            // two-chunk split at k (the decoder's own 1-byte header reads subdivide further)
            schedules.push((vec![ReadEv::Chunk(*k)], 0, vec![], false, format!("split@{k}")));
        }
        // a Pending (+ cancel) before read number j of the all-at-once delivery
        let reads = base.offers.len().min(full + 16);
        for j in 0..=reads {
            for (cancel, wake) in [(false, WakeP::Now), (true, WakeP::Never), (true, WakeP::Later(3))] {
                let mut s: Vec<ReadEv> = vec![ReadEv::Chunk(usize::MAX); j];
                s.push(ReadEv::Pending(wake));
                schedules.push((s, 0, vec![cancel], cancel, format!("pend@read{j}/cancel={cancel}/{wake:?}")));
            }
        }
        // a Pending + cancel before byte j of 1-byte delivery
        for k in positions.iter().take(full) {
            let mut s: Vec<ReadEv> = vec![ReadEv::Chunk(1); *k];
            s.push(ReadEv::Pending(WakeP::Now));
            schedules.push((s, 1, vec![true], false, format!("all-1+cancel@{k}")));
        }
    }

    // two decoder tasks on one thread (two connections: the case's stream, and a fixed 300-byte
    // PUBLISH delivered under the case's schedule read backwards), each with its own caller-held
    // state: each must produce what the uninterrupted read of its own stream produces
    if len <= 65_536 && c.read_script.iter().any(|e| matches!(e, ReadEv::Pending(_))) {
        fn show<C: Codec>(r: Result<(usize, Vec<std::mem::MaybeUninit<u8>>, C::Packet), C::Err>) -> String {
            match r {
                Ok((total, buf, pkt)) => format!("Ok total={total} body={:?} packet={}", uninit_to_vec(buf), safe_debug(&pkt)),
                Err(e) => format!("Err {e:?}"),
            }
        }
        let brief = |fe: &Fe<C::Packet, C::Err>| match fe {
            Fe::Ok { pkt, total: Some(t), body: Some(b), .. } => Some(format!("Ok total={t} body={b:?} packet={}", safe_debug(pkt))),
            Fe::Err { e, .. } => Some(format!("Err {e:?}")),
            _ => None,
        };
        let other: Rc<Vec<u8>> = {
            let mut v = if c.fam.is_v5() { vec![0x30, 0xB0, 0x02, 0x00, 0x01, b't', 0x00] } else { vec![0x30, 0xAF, 0x02, 0x00, 0x01, b't'] };
            v.extend((0..300u32).map(|i| (i % 251) as u8));
            Rc::new(v)
        };
        let base2 = run_p::<C>(&other, &[], 0, &[], &[], false, trace, &mut out);
        if let (Some(want), Some(want2)) = (brief(&base.fe), brief(&base2.fe)) {
            let core = Core::new(trace);
            let mut rev = c.read_script.clone();
            rev.reverse();
            let mut rd1 = SimReader::new(&core, stream.clone(), c.read_script.clone());
            rd1.tail = c.read_tail;
            let mut rd2 = SimReader::new(&core, other.clone(), rev);
            rd2.tail = c.read_tail;
            let mut st1 = GenericPollPacketState::<C::Header>::default();
            let mut st2 = GenericPollPacketState::<C::Header>::default();
            let cap = 2 * poll_cap(len, &c.read_script) + 64;
            let r = guarded(std::panic::AssertUnwindSafe(|| {
                let mut ex = Exec::new(&core, cap);
                let mut fut = Join2 {
                    a: Box::pin(async { show::<C>(GenericPollPacket::new(&mut st1, &mut rd1).await) }),
                    b: Box::pin(async { show::<C>(GenericPollPacket::new(&mut st2, &mut rd2).await) }),
                    ra: None,
                    rb: None,
                };
                ex.run(std::pin::Pin::new(&mut fut))
            }));
            out.absorb_core(&core, trace);
            out.evals += 1;
            out.probe("two-decoders-interleaved");
            match r {
                Ok(Ok((x, y))) => {
                    for (i, (got, want)) in [(x, want), (y, want2)].iter().enumerate() {
                        if got != want {
                            out.violate(
                                sig(c, &stream, "interleaved!=baseline"),
                                format!("two poll decoders interleaved on one thread: task {} returned\n    {}\n  the uninterrupted read returns\n    {}", i + 1, &got[..got.len().min(400)], &want[..want.len().min(400)]),
                            );
                        }
                    }
                }
                Ok(Err(_)) => out.violate(sig(c, &stream, "interleaved-stuck"), "two interleaved poll decoders made no progress within the poll cap".to_string()),
                Err(m) => out.violate(sig(c, &stream, "interleaved-panic"), format!("two interleaved poll decoders panicked: {m}")),
            }
        }
    }

    let nsched = schedules.len();
    for (script, tail, cancel, observe, label) in schedules {
        let r = run_p::<C>(&stream, &script, tail, &cancel, &[], observe, trace, &mut out);
        check_one::<C>(c, &stream, framing, &r, Some(&base), &label, &mut out);
        if out.violations.len() >= 4 {
            break;
        }
    }

    let multi = c.read_script.iter().filter(|e| matches!(e, ReadEv::Chunk(_))).count() >= 1 || c.read_tail > 0;
    let pend = c.read_script.iter().any(|e| matches!(e, ReadEv::Pending(_)));
    out.nontrivial = multi || pend || nsched >= 3;
    out
}

#[allow(clippy::too_many_arguments)]
fn check_one<C: Codec>(
    c: &Case,
    stream: &Rc<Vec<u8>>,
    framing: Result<(usize, usize), VarErr>,
    r: &PRun<C>,
    base: Option<&PRun<C>>,
    label: &str,
    out: &mut RunOut,
) {
    let s = stream.as_slice();
    // no panic, no spin, bounded progress
    match &r.fe {
        Fe::Panic(m) => out.violate(sig(c, s, "panic"), format!("[{label}] poll decoder panicked: {m}")),
        Fe::Stuck(m) => out.violate(sig(c, s, "no-progress"), format!("[{label}] no progress: {m}")),
        _ => {}
    }
    // Pending only when the transport said Pending
    for v in &r.sim_violations {
        out.violate(sig(c, s, "pending-without-transport"), format!("[{label}] {v}"));
    }
    // never asks for bytes beyond the end of the current frame
    for (pos, cap) in &r.offers {
        let limit = match spec::ref_frame(&s[..*pos]) {
            Ok((h, rl)) => h + rl,
            Err(VarErr::NeedMore) => {
                if *pos == 0 {
                    2
                } else {
                    pos + 1
                }
            }
            Err(VarErr::TooLong) => usize::MAX,
        };
        if pos + cap > limit {
            out.violate(
                sig(c, s, "over-read"),
                format!("[{label}] read at stream position {pos} offered capacity {cap}, but the current frame ends at {limit}"),
            );
            break;
        }
    }
    // on success: consumed exactly what it reports, which is the frame
    if let Fe::Ok { consumed, total, body, .. } = &r.fe {
        if *consumed != *total {
            out.violate(
                sig(c, s, "consumed!=total"),
                format!("[{label}] decoder reports total={total:?} but took {consumed:?} bytes from the transport"),
            );
        }
        if let Ok((h, rl)) = framing {
            if *consumed != Some(h + rl) {
                out.violate(
                    sig(c, s, "consumed!=frame"),
                    format!("[{label}] consumed {consumed:?} bytes, the frame is {} bytes", h + rl),
                );
            }
            if let Some(b) = body {
                if h + rl <= s.len() && b.as_slice() != &s[h..h + rl] {
                    out.violate(sig(c, s, "body-bytes"), format!("[{label}] returned body differs from the bytes on the wire"));
                }
            }
        }
    }
    // state snapshots between polls
    if let Ok((h, _)) = framing {
        for (pos, is_header, idx) in &r.states {
            // necessary for any implementation over these public state types: the header cannot be
            // complete before its bytes arrived, and the body cannot hold more than was delivered
            let ok = if *pos < h { *is_header } else { *is_header || *idx <= pos - h };
            if !ok {
                out.violate(
                    sig(c, s, "state-snapshot"),
                    format!("[{label}] after {pos} bytes the caller-held state is header={is_header} idx={idx} (header is {h} bytes)"),
                );
                break;
            }
        }
    }
    if let Some(b) = base {
        // "the same result": the future's output. Bytes consumed on an *error* are not part of it.
        let same = match (&r.fe, &b.fe) {
            (Fe::Err { e: x, .. }, Fe::Err { e: y, .. }) => x == y,
            (x, y) => x == y,
        };
        if !same {
            out.violate(
                sig(c, s, &format!("schedule-dependent:{}->{}", fe_class::<C>(&b.fe), fe_class::<C>(&r.fe))),
                format!(
                    "[{label}] result differs from the uninterrupted read\n  uninterrupted: {}\n  this schedule: {}",
                    fe_long::<C>(&b.fe),
                    fe_long::<C>(&r.fe)
                ),
            );
        }
        // probes
        if r.states.iter().any(|(p, h, _)| *h && *p >= 2) {
            out.probe("resume_mid_varint");
        }
        if r.states.iter().any(|(_, h, i)| !*h && *i > 0) {
            out.probe("resume_mid_body");
        }
    }
}
