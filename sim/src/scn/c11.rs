//! C11 — anything a decoder accepts can be re-encoded and decodes to itself (relay node):
//! receiver -> encode() -> second wire -> receivers. Runs in both build profiles.

use std::rc::Rc;

use crate::ast::Bs;
use crate::case::*;
use crate::dispatch;
use crate::fam::Codec;
use crate::fe::*;
use crate::rng::Rng;
use crate::scn::common::*;
use crate::scn::{Scenario, Tier};

pub fn scenarios() -> Vec<Scenario> {
    vec![Scenario {
        property: "C11",
        name: "c11-relay",
        gen,
        run,
        quick_runs: 600_000,
        weight: 1,
        rule: "case = byte string (canonical and non-canonical spellings of valid packets: long forms, non-minimal integers, shuffled properties, lenient flags; survivors of corruption) relayed through each accepting front-end; non-trivial when at least one front-end accepts; distinct by case hash",
    }]
}

pub fn gen(rng: &mut Rng, tier: Tier, idx: u64) -> Case {
    hostile_case(rng, tier, idx, "C11", "c11-relay", 70)
}

pub fn run(c: &Case, trace: bool) -> RunOut {
    dispatch!(c.fam, run_g(c, trace))
}

fn run_g<C: Codec>(c: &Case, trace: bool) -> RunOut {
    let mut out = RunOut::default();
    let f = if c.fam.is_v5() { "v5" } else { "v3" };
    let stream = Rc::new(hostile_stream(c));
    let ty = type_of_stream(&stream);
    // the three receivers of the first hop; B's consumption is observed through A on an
    // always-ready reader (B is block_on(decode_async(&mut slice)) by construction)
    let b = fe_block::<C>(&stream);
    out.evals += 1;
    let a0 = run_a::<C>(&stream, &[], 0, &[], trace, &mut out);
    let ar = run_a::<C>(&stream, &c.read_script, c.read_tail, &[], trace, &mut out);
    let pr = run_p::<C>(&stream, &c.read_script, c.read_tail, &c.cancel, &[], false, trace, &mut out);
    let n_b = match &a0.fe {
        Fe::Ok { consumed, .. } => *consumed,
        _ => None,
    };
    let firsts: [(&str, &Fe<C::Packet, C::Err>, Option<usize>); 3] = [
        ("B", &b, n_b),
        ("A", &ar.fe, match &ar.fe { Fe::Ok { consumed, .. } => *consumed, _ => None }),
        ("P", &pr.fe, match &pr.fe { Fe::Ok { consumed, .. } => *consumed, _ => None }),
    ];
    for (name, fe, consumed) in firsts {
        let Fe::Ok { pkt, .. } = fe else { continue };
        out.nontrivial = true;
        out.probe("accepted");
        let sig = |clause: String| format!("C11:{f}:{ty}:{name}:{clause}");
        let input = || format!("  input: {:?}\n  decoded by {name}: {}", Bs(stream[..stream.len().min(200)].to_vec()), safe_debug(pkt));
        match guarded(|| C::encode(pkt)) {
            Err(m) => out.violate(sig("reencode-panic".into()), format!("re-encoding an accepted packet panicked: {m}\n{}", input())),
            Ok(Err(e)) => out.violate(sig("reencode-err".into()), format!("re-encoding an accepted packet failed: {e:?}\n{}", input())),
            Ok(Ok(vb)) => {
                let re = Rc::new(vb.as_ref().to_vec());
                if let Some(n) = consumed {
                    if re.len() > n {
                        // the lenient front-ends do not enforce the declared remaining length for
                        // every packet type: did this decode run past the declared frame?
                        let beyond = matches!(crate::spec::ref_frame(&stream), Ok((h, rl)) if n > h + rl);
                        let fronts = if name == "P" { "P" } else { "BA" };
                        out.violate(
                            if beyond {
                                format!("C11:{f}:{ty}:{fronts}:longer(consumed-beyond-declared-frame)")
                            } else {
                                sig("longer".into())
                            },
                            format!("re-encoding is {} bytes, the decoder consumed {n}\n{}\n  re-encoded: {:?}", re.len(), input(), Bs(re.to_vec())),
                        );
                    } else if re.len() < n {
                        out.probe("canonicalised-shorter");
                    }
                }
                // second hop
                let b2 = fe_block::<C>(&re);
                let a2 = run_a::<C>(&re, &c.read_script, c.read_tail, &[], trace, &mut out);
                let p2 = run_p::<C>(&re, &c.read_script, c.read_tail, &c.cancel, &[], false, trace, &mut out);
                for (g, fe2) in [("B", &b2), ("A", &a2.fe), ("P", &p2.fe)] {
                    if fe2.pkt() != Some(pkt) {
                        out.violate(
                            sig(format!("second-hop:{g}={}", fe_class::<C>(fe2))),
                            format!(
                                "the re-encoding of an accepted packet does not decode to it on front-end {g}: {}\n{}\n  re-encoded: {:?}",
                                fe_long::<C>(fe2),
                                input(),
                                Bs(re.to_vec())
                            ),
                        );
                    }
                }
            }
        }
    }
    out
}
