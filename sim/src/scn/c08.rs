//! C08 — back-to-back packets on one stream are framed without loss or overlap, on all three
//! front-ends, under chunked delivery with not-ready results and cancellation.

use std::rc::Rc;

use mqtt_proto::GenericPollPacketState;

use crate::case::*;
use crate::dispatch;
use crate::fam::Codec;
use crate::fe::*;
use crate::gen;
use crate::rng::Rng;
use crate::scn::common::*;
use crate::scn::{Scenario, Tier};
use crate::sim::*;
use crate::spec;

pub fn scenarios() -> Vec<Scenario> {
    vec![Scenario {
        property: "C08",
        name: "c08-stream",
        gen,
        run,
        quick_runs: 400_000,
        weight: 1,
        rule: "case = (sequence of 1..=8 (quick) / 1..=32 (thorough) valid packets, delivery schedule); non-trivial when the sequence has >= 2 packets; distinct by case hash",
    }]
}

pub fn gen(rng: &mut Rng, tier: Tier, _idx: u64) -> Case {
    let mut sw = gen::swarm(rng, tier == Tier::Thorough);
    // multi-megabyte frames are C01/C02's business; here they would only slow the accumulate loop
    sw.max_frame = 16_384 + 16;
    let mut c = Case::new("C08", "c08-stream", sw.fam, Front::P);
    let max = if tier == Tier::Thorough { 32 } else { 8 };
    let n = if rng.chance(1, 4) { rng.urange(1, max) } else { rng.urange(1, 4) };
    let mut total = 0;
    for _ in 0..n {
        let mut a = gen::gen_packet(rng, &sw);
        maybe_retarget(rng, &sw, &mut a, 100);
        gen::maybe_retarget_props(rng, sw.fam, &mut a, 40);
        total += crate::refcodec::ref_body_len(&a, sw.fam) + 5;
        c.packets.push(a);
    }
    let pp = *rng.pick(&[0u64, 50, 300]);
    let (script, tail) = gen_read_script(rng, total, pp, &[]);
    let cp = *rng.pick(&[0u64, 500]);
    c.cancel = gen_cancel(rng, &script, cp);
    c.read_script = script;
    c.read_tail = tail;
    c.reader_style = rng.below(3) as u8;
    c
}

pub fn run(c: &Case, trace: bool) -> RunOut {
    dispatch!(c.fam, run_g(c, trace))
}

fn run_g<C: Codec>(c: &Case, trace: bool) -> RunOut {
    let mut out = RunOut::default();
    let f = if c.fam.is_v5() { "v5" } else { "v3" };
    out.nontrivial = c.packets.len() >= 2;
    let mut sent: Vec<(C::Packet, usize, &'static str)> = Vec::new();
    let mut stream: Vec<u8> = Vec::new();
    for a in &c.packets {
        match lib_encode::<C>(a) {
            Ok((p, e)) => {
                sent.push((p, e.len(), a.type_name()));
                stream.extend_from_slice(&e);
            }
            Err(_) => continue,
        }
    }
    out.evals = 1;
    if sent.is_empty() {
        return out;
    }
    let stream = Rc::new(stream);
    let total = stream.len();

    // ---- A and P over one reader for the whole stream
    for front in [Front::A, Front::P] {
        let core = Core::new(trace);
        let mut rd = SimReader::new(&core, stream.clone(), c.read_script.clone());
        rd.tail = c.read_tail;
        let cap = poll_cap(total, &c.read_script);
        let mut ok = true;
        for (i, (p, elen, ty)) in sent.iter().enumerate() {
            let sig = |clause: &str| format!("C08:{f}:{ty}:{front:?}:{clause}");
            let before = rd.pos;
            let fe = match front {
                Front::A => fe_async::<C>(&core, &mut rd, cap),
                _ => {
                    let mut st = GenericPollPacketState::<C::Header>::default();
                    fe_poll::<C>(&core, &mut st, &mut rd, &c.cancel, cap, None)
                }
            };
            out.evals += 1;
            match &fe {
                Fe::Ok { pkt, total: t, .. } => {
                    if pkt != p {
                        out.violate(sig("wrong-packet"), format!("packet {i} of {}: decoded {}, sent {p:?}", sent.len(), safe_debug(pkt)));
                        ok = false;
                    }
                    let delta = rd.pos - before;
                    if delta != *elen {
                        out.violate(sig("consumed"), format!("packet {i} of {}: consumed {delta} bytes, its encoding is {elen} bytes", sent.len()));
                        ok = false;
                    }
                    if front == Front::P && *t != Some(*elen) {
                        out.violate(sig("total"), format!("packet {i}: reported total {t:?}, encoding is {elen} bytes"));
                        ok = false;
                    }
                }
                other => {
                    out.violate(
                        sig(&format!("decode={}", fe_class::<C>(other))),
                        format!("packet {i} of {} at stream offset {before}: {}", sent.len(), fe_long::<C>(other)),
                    );
                    ok = false;
                }
            }
            if !ok {
                break;
            }
        }
        if ok {
            // clean end of input at the boundary
            let sig = |clause: &str| format!("C08:{f}:END:{front:?}:{clause}");
            if rd.pos != total {
                out.violate(sig("sum"), format!("byte counts add up to {}, the stream is {total} bytes", rd.pos));
            }
            rd.reset_eof_counter();
            let fe = match front {
                Front::A => fe_async::<C>(&core, &mut rd, cap),
                _ => {
                    let mut st = GenericPollPacketState::<C::Header>::default();
                    fe_poll::<C>(&core, &mut st, &mut rd, &[], cap, None)
                }
            };
            let eof = matches!(&fe, Fe::Err { e, .. } if C::norm(e).eof);
            if !eof {
                out.violate(sig("no-eof"), format!("after the last packet the decoder returned {} instead of end-of-input", fe_long::<C>(&fe)));
            }
        }
        for v in core.borrow().sim_violations.iter().filter(|v| v.contains(crate::sim::LOST_WAKE)) {
            out.violate(format!("C08:{f}:{front:?}:hang"), v.clone());
        }
        out.absorb_core(&core, trace);
    }

    // ---- B: a caller that accumulates chunks in a buffer and advances by the encoded length
    {
        let mut buf: Vec<u8> = Vec::new();
        let mut off = 0usize;
        let mut i = 0usize;
        let mut delivered = 0usize;
        let mut sp = 0usize;
        let mut ok = true;
        while ok && (delivered < total || i < sent.len()) {
            // deliver the next chunk per the schedule
            if delivered < total {
                let n = loop {
                    if sp < c.read_script.len() {
                        sp += 1;
                        if let ReadEv::Chunk(n) = c.read_script[sp - 1] {
                            break n;
                        }
                    } else {
                        break if c.read_tail == 0 { usize::MAX } else { c.read_tail };
                    }
                };
                // at most ~512 deliveries per stream, so the accumulate loop stays linear-ish
                let n = n.max(1).max(total / 512).min(total - delivered);
                buf.extend_from_slice(&stream[delivered..delivered + n]);
                delivered += n;
            }
            // decode as many packets as are complete
            loop {
                if i >= sent.len() {
                    break;
                }
                let (p, elen, ty) = &sent[i];
                let sig = |clause: &str| format!("C08:{f}:{ty}:B:{clause}");
                let fe = fe_block::<C>(&buf[off..]);
                out.evals += 1;
                match &fe {
                    Fe::Incomplete => {
                        if buf.len() - off >= *elen {
                            out.violate(sig("incomplete-on-complete"), format!("packet {i}: {} bytes buffered, encoding is {elen} bytes, decoder says incomplete", buf.len() - off));
                            ok = false;
                        }
                        break;
                    }
                    Fe::Ok { pkt, .. } => {
                        if buf.len() - off < *elen {
                            out.violate(sig("early-packet"), format!("packet {i}: a packet was returned from {} of its {elen} bytes", buf.len() - off));
                            ok = false;
                            break;
                        }
                        if pkt != p {
                            out.violate(sig("wrong-packet"), format!("packet {i} of {}: decoded {}, sent {p:?}", sent.len(), safe_debug(pkt)));
                            ok = false;
                            break;
                        }
                        // advance by the packet's own encoded length; the fixed header must agree
                        let by_len = guarded(|| C::encode_len(pkt)).ok().and_then(|r| r.ok());
                        let by_hdr = guarded(|| C::header_decode(&buf[off..]))
                            .ok()
                            .and_then(|r| r.ok())
                            .and_then(|h| mqtt_proto::total_len(C::header_view(&h).remaining_len as usize).ok());
                        if by_len != Some(*elen) || by_hdr != Some(*elen) {
                            out.violate(sig("advance"), format!("packet {i}: encode_len says {by_len:?}, header says {by_hdr:?}, encoding is {elen} bytes"));
                            ok = false;
                            break;
                        }
                        let t = *elen;
                        let (h, rl) = spec::ref_frame(&buf[off..]).unwrap_or((0, 0));
                        if mqtt_proto::header_len(t) != h || mqtt_proto::remaining_len(t) != rl {
                            out.violate(sig("helpers"), format!("header_len({t})={} remaining_len({t})={}, frame has header {h} remaining {rl}", mqtt_proto::header_len(t), mqtt_proto::remaining_len(t)));
                            ok = false;
                            break;
                        }
                        off += t;
                        i += 1;
                    }
                    other => {
                        out.violate(
                            sig(&format!("decode={}", fe_class::<C>(other))),
                            format!("packet {i} of {} with {} bytes buffered: {}", sent.len(), buf.len() - off, fe_long::<C>(other)),
                        );
                        ok = false;
                        break;
                    }
                }
            }
            if delivered >= total && i < sent.len() && ok {
                // everything delivered but a packet is still "incomplete"
                let (_, _, ty) = &sent[i];
                out.violate(format!("C08:{f}:{ty}:B:lost"), format!("whole stream delivered, packet {i} of {} never decoded", sent.len()));
                ok = false;
            }
        }
        if ok {
            if off != total {
                out.violate(format!("C08:{f}:END:B:sum"), format!("byte counts add up to {off}, the stream is {total} bytes"));
            }
            let fe = fe_block::<C>(&buf[off.min(buf.len())..]);
            if !matches!(fe, Fe::Incomplete) {
                out.violate(format!("C08:{f}:END:B:no-eof"), format!("after the last packet the decoder returned {}", fe_long::<C>(&fe)));
            }
        }
    }
    out
}
