//! C14 — transport failures surface as I/O errors of the same kind. For every byte position of a
//! valid encoding: a read error of kind K, or a clean close, while decoding (A, P); a write
//! error of kind K or a zero-length write while encoding (async writer, streaming sink).

use std::io;
use std::panic::AssertUnwindSafe;
use std::rc::Rc;

use crate::ast::*;
use crate::case::*;
use crate::dispatch;
use crate::fam::Codec;
use crate::fe::*;
use crate::gen;
use crate::refcodec::{self, Style};
use crate::rng::Rng;
use crate::scn::common::*;
use crate::scn::{Scenario, Tier};
use crate::sim::*;

pub fn scenarios() -> Vec<Scenario> {
    vec![Scenario {
        property: "C14",
        name: "c14-faults",
        gen,
        run,
        quick_runs: 30_000,
        weight: 1,
        rule: "case = (valid packet, schedule around the fault), evaluated at every fault position (all for <= 2,048 bytes, field boundaries +-2 beyond) x {read error kind, EOF, write error kind, zero write}; non-trivial when the encoding has >= 3 bytes; distinct by case hash",
    }]
}

/// n[0]: rotation offset for the error kind used at each position
pub fn gen(rng: &mut Rng, tier: Tier, idx: u64) -> Case {
    let mut sw = gen::swarm(rng, tier == Tier::Thorough);
    let all = gen::all_types(sw.fam);
    if idx % 8 == 0 {
        sw.types = vec![all[(idx / 8) as usize % all.len()]];
    }
    if tier != Tier::Thorough {
        sw.max_frame = 16_384 + 16;
    }
    let mut c = Case::new("C14", "c14-faults", sw.fam, Front::P);
    let mut a = gen::gen_packet(rng, &sw);
    maybe_retarget(rng, &sw, &mut a, 400);
    gen::maybe_retarget_props(rng, sw.fam, &mut a, 40);
    let len = refcodec::ref_body_len(&a, sw.fam) + 5;
    c.packets = vec![a];
    let pp = *rng.pick(&[0u64, 0, 200]);
    let (script, tail) = gen_read_script(rng, len, pp, &[]);
    let cp = *rng.pick(&[0u64, 500]);
    c.cancel = gen_cancel(rng, &script, cp);
    c.read_script = script;
    c.read_tail = tail;
    c.reader_style = rng.below(3) as u8;
    let wp = *rng.pick(&[0u64, 200]);
    let (ws, wt) = gen_write_script(rng, len, wp, 0);
    c.write_script = ws;
    c.write_tail = wt;
    c.writer_style = gen_writer_style(rng);
    c.n = vec![rng.below(KINDS.len() as u64) as i64];
    c
}

pub fn run(c: &Case, trace: bool) -> RunOut {
    dispatch!(c.fam, run_g(c, trace))
}

fn positions(a: &Ast, fam: Fam, len: usize) -> Vec<usize> {
    if len <= 2048 {
        return (0..len).collect();
    }
    let mut v: Vec<usize> = (0..32).collect();
    v.extend(len - 32..len);
    let e = refcodec::ref_encode(a, fam, &Style::default());
    for b in span_bounds(&e.spans) {
        for d in b.saturating_sub(2)..=b + 2 {
            if d < len {
                v.push(d);
            }
        }
    }
    v.sort_unstable();
    v.dedup();
    if v.len() > 400 {
        let stride = v.len() / 400 + 1;
        v = v.into_iter().step_by(stride).collect();
    }
    v
}

fn run_g<C: Codec>(c: &Case, trace: bool) -> RunOut {
    let mut out = RunOut::default();
    let a = &c.packets[0];
    let ty = a.type_name();
    let f = if c.fam.is_v5() { "v5" } else { "v3" };
    let sig = |clause: &str| format!("C14:{f}:{ty}:{clause}");
    let (p, enc) = match lib_encode::<C>(a) {
        Ok(x) => x,
        Err(_) => {
            out.evals = 1;
            return out;
        }
    };
    if fe_block::<C>(&enc).pkt() != Some(&p) {
        out.evals = 1;
        return out;
    }
    let len = enc.len();
    out.nontrivial = len >= 3;
    let rot = c.n.first().copied().unwrap_or(0) as usize;
    let stream = Rc::new(enc.clone());
    let pos = positions(a, c.fam, len);

    // ---- read side
    for (i, k) in pos.iter().enumerate() {
        let kid = ((i + rot) % KINDS.len()) as u8;
        let kind = kind_of(kid);
        let faults = [(*k, kid)];
        let ar = {
            let core = Core::new(trace);
            let mut rd = SimReader::new(&core, stream.clone(), c.read_script.clone()).with_faults(&faults);
            rd.tail = c.read_tail;
            let fe = fe_async::<C>(&core, &mut rd, poll_cap(len, &c.read_script));
            out.absorb_core(&core, trace);
            out.evals += 1;
            fe
        };
        let pr = run_p::<C>(&stream, &c.read_script, c.read_tail, &c.cancel, &faults, false, trace, &mut out);
        for (name, fe) in [("A", &ar), ("P", &pr.fe)] {
            let ok = match fe {
                Fe::Err { e, .. } => {
                    let n = C::norm(e);
                    n.io_kind == Some(kind) && (!n.eof || kind == io::ErrorKind::UnexpectedEof)
                }
                _ => false,
            };
            if !ok {
                out.violate(
                    sig(&format!("{name}:read-err->{}", fe_class::<C>(fe))),
                    format!(
                        "front-end {name}: read error {kind:?} injected at byte {k} of {len}, decoder returned {}\n  packet: {a:?}",
                        fe_long::<C>(fe)
                    ),
                );
            }
        }
        // clean close at k: EOF
        let pre = Rc::new(enc[..*k].to_vec());
        let pe = run_p::<C>(&pre, &c.read_script, c.read_tail, &c.cancel, &[], false, trace, &mut out);
        let ae = run_a::<C>(&pre, &c.read_script, c.read_tail, &[], trace, &mut out);
        for (name, fe) in [("A", &ae.fe), ("P", &pe.fe)] {
            let ok = matches!(fe, Fe::Err { e, .. } if C::norm(e).eof);
            if !ok {
                out.violate(
                    sig(&format!("{name}:eof->{}", fe_class::<C>(fe))),
                    format!("front-end {name}: stream closed at byte {k} of {len}, decoder returned {}", fe_long::<C>(fe)),
                );
            }
        }
        if out.violations.len() >= 3 {
            return out;
        }
    }

    // ---- write side: async encoder
    for (i, k) in pos.iter().enumerate() {
        let (fault, expect_kind) = if (i + rot) % 5 == 0 {
            (Fault::Zero, io::ErrorKind::WriteZero)
        } else {
            let kid = write_kind_id(((i + rot) % KINDS.len()) as u8);
            (Fault::Err(kid), kind_of(kid))
        };
        let core = Core::new(trace);
        let mut w = SimWriter::new(&core, c.write_script.clone()).with_faults(&[(*k, fault)]);
        w.tail = c.write_tail;
        let cap = (4 * (len + c.write_script.len()) + 64) as u32;
        let r = guarded(AssertUnwindSafe(|| {
            let mut ex = Exec::new(&core, cap);
            let mut fut = Box::pin(C::encode_async(&p, &mut w));
            ex.run(fut.as_mut())
        }));
        out.absorb_core(&core, trace);
        out.evals += 1;
        let desc = format!("write fault {fault:?} at byte {k} of {len}");
        match r {
            Ok(Ok(Err(e))) => {
                let n = C::norm(&e);
                if n.io_kind != Some(expect_kind) {
                    out.violate(sig("async-write-err-kind"), format!("{desc}: encode_async returned {e:?}, expected an I/O error of kind {expect_kind:?}"));
                }
            }
            Ok(Ok(Ok(()))) => out.violate(sig("async-write-err-swallowed"), format!("{desc}: encode_async returned Ok")),
            Ok(Err(_)) => out.violate(sig("async-write-stuck"), format!("{desc}: no progress")),
            Err(m) => out.violate(sig("async-write-panic"), format!("{desc}: panic {m}")),
        }
        if w.accepted.len() != *k || w.accepted[..] != enc[..*k] {
            out.violate(
                sig("async-write-prefix"),
                format!("{desc}: the sink holds {} bytes which are not the first {k} bytes of the encoding", w.accepted.len()),
            );
        }
        if out.violations.len() >= 3 {
            return out;
        }
    }

    // ---- write side: streaming encoders into a sync sink
    for part in C::parts(&p) {
        let mut full: Vec<u8> = Vec::new();
        if guarded(AssertUnwindSafe(|| part.enc.enc_vec(&mut full))).map(|r| r.is_ok()) != Ok(true) {
            continue;
        }
        let plen = full.len();
        let ppos: Vec<usize> = if plen <= 2048 { (0..plen).collect() } else { (0..32).chain(plen - 32..plen).collect() };
        for (i, k) in ppos.iter().enumerate() {
            let (fault, expect_kind) = if (i + rot) % 5 == 0 {
                (Fault::Zero, io::ErrorKind::WriteZero)
            } else {
                let kid = write_kind_id(((i + rot) % KINDS.len()) as u8);
                (Fault::Err(kid), kind_of(kid))
            };
            let core = Core::new(trace);
            let mut sink = SimSink(SimWriter::new(&core, c.write_script.clone()).with_faults(&[(*k, fault)]));
            sink.0.tail = c.write_tail;
            let r = guarded(AssertUnwindSafe(|| part.enc.enc_sink(&mut sink)));
            out.absorb_core(&core, trace);
            out.evals += 1;
            let desc = format!("{}: write fault {fault:?} at byte {k} of {plen}", part.name);
            match r {
                Ok(Err(e)) => {
                    if e.kind() != expect_kind {
                        out.violate(sig(&format!("sink:{}:err-kind", part.name)), format!("{desc}: returned {e:?}, expected kind {expect_kind:?}"));
                    }
                }
                Ok(Ok(())) => out.violate(sig(&format!("sink:{}:err-swallowed", part.name)), format!("{desc}: returned Ok")),
                Err(m) => out.violate(sig(&format!("sink:{}:panic", part.name)), format!("{desc}: panic {m}")),
            }
            if sink.0.accepted.len() != *k || sink.0.accepted[..] != full[..*k] {
                out.violate(
                    sig(&format!("sink:{}:prefix", part.name)),
                    format!("{desc}: the sink holds {} bytes which are not the first {k} bytes of the part", sink.0.accepted.len()),
                );
            }
        }
        if out.violations.len() >= 3 {
            return out;
        }
    }

    // ---- conversions between error types
    for kid in 0..KINDS.len() as u8 {
        let kind = kind_of(kid);
        let e: C::Err = io::Error::new(kind, "x").into();
        let n = C::norm(&e);
        if n.io_kind != Some(kind) {
            out.violate(format!("C14:{f}:conv:io->err"), format!("io::Error of kind {kind:?} converts to {e:?}"));
        }
        let ce: mqtt_proto::Error = io::Error::new(kind, "x").into();
        let back: io::Error = ce.clone().into();
        if back.kind() != kind {
            out.violate("C14:conv:err->io".to_string(), format!("{ce:?} converts to io::Error of kind {:?}", back.kind()));
        }
        let e5: C::Err = ce.into();
        if C::norm(&e5).io_kind != Some(kind) {
            out.violate(format!("C14:{f}:conv:err->family"), format!("Error::IoError({kind:?}) converts to {e5:?}"));
        }
    }
    for pe in [
        mqtt_proto::Error::InvalidHeader,
        mqtt_proto::Error::ZeroPid,
        mqtt_proto::Error::InvalidQos(3),
        mqtt_proto::Error::InvalidString,
        mqtt_proto::Error::InvalidRemainingLength,
        mqtt_proto::Error::InvalidVarByteInt,
        mqtt_proto::Error::EmptySubscription,
        mqtt_proto::Error::InvalidTopicName("+".into()),
    ] {
        let back: io::Error = pe.clone().into();
        if back.kind() != io::ErrorKind::InvalidData {
            out.violate("C14:conv:protocol->io".to_string(), format!("{pe:?} converts to io::Error of kind {:?}", back.kind()));
        }
    }
    out
}
