//! C02 — declared lengths equal the bytes written (conservation at the sink seam). Runs in both
//! build profiles: with debug assertions a wrong length panics inside the library, without them
//! it yields a frame whose header disagrees with its body.

use std::panic::AssertUnwindSafe;
use std::sync::Arc;

use bytes::Bytes;
use mqtt_proto::v5;

use crate::ast::*;
use crate::case::*;
use crate::dispatch;
use crate::fam::Codec;
use crate::fe::*;
use crate::gen;
use crate::refcodec;
use crate::rng::Rng;
use crate::scn::common::*;
use crate::scn::{Scenario, Tier};
use crate::sim::*;
use crate::spec;

pub fn scenarios() -> Vec<Scenario> {
    vec![
        Scenario {
            property: "C02",
            name: "c02-lengths",
            gen,
            run,
            quick_runs: 500_000,
            weight: 8,
            rule: "case = (valid packet, sink behaviour); non-trivial when the packet has >= 1 optional field or its remaining length needs >= 2 length bytes; distinct by case hash",
        },
        Scenario {
            property: "C02",
            name: "c02-oversize",
            gen: gen_big,
            run: run_big,
            quick_runs: 24,
            weight: 1,
            rule: "case = packet whose size straddles the 268,435,455 limit; always non-trivial; distinct by case hash",
        },
    ]
}

pub fn gen(rng: &mut Rng, tier: Tier, idx: u64) -> Case {
    let mut sw = gen::swarm(rng, tier == Tier::Thorough);
    let all = gen::all_types(sw.fam);
    if idx % 16 == 0 {
        sw.types = vec![all[(idx / 16) as usize % all.len()]];
    }
    let mut c = Case::new("C02", "c02-lengths", sw.fam, Front::B);
    let mut a = gen::gen_packet(rng, &sw);
    maybe_retarget(rng, &sw, &mut a, if tier == Tier::Thorough { 24 } else { 60 });
    gen::maybe_retarget_props(rng, sw.fam, &mut a, 40);
    let len = refcodec::ref_body_len(&a, sw.fam) + 5;
    c.packets = vec![a];
    let ep = *rng.pick(&[0u64, 100, 400]);
    let (ws, tail) = gen_write_script(rng, len, 0, ep);
    c.write_script = ws;
    c.write_tail = tail;
    // n[0]: a history before the measured encode: every part is first encoded into a sink that
    // fails after n[0] permille of its bytes (-1: none)
    c.n = vec![if rng.chance(1, 3) { rng.below(1000) as i64 } else { -1 }];
    c
}

pub fn run(c: &Case, trace: bool) -> RunOut {
    dispatch!(c.fam, run_g(c, trace))
}

fn run_g<C: Codec>(c: &Case, trace: bool) -> RunOut {
    let mut out = RunOut::default();
    out.evals = 1;
    let a = &c.packets[0];
    let ty = a.type_name();
    let f = if c.fam.is_v5() { "v5" } else { "v3" };
    let sig = |clause: &str| format!("C02:{f}:{ty}:{clause}");
    out.nontrivial = a.richness() >= 1;
    let Some(p) = C::from_ast(a) else {
        out.violate(sig("bridge-reject"), format!("library constructors reject {a:?}"));
        return out;
    };
    check_packet::<C>(&p, a, c, &sig, trace, &mut out);
    out
}

fn check_packet<C: Codec>(
    p: &C::Packet,
    a: &Ast,
    c: &Case,
    sig: &dyn Fn(&str) -> String,
    trace: bool,
    out: &mut RunOut,
) {
    // an earlier encode on the same thread that ended in a write error must leave nothing behind
    if let Some(&pm) = c.n.first() {
        if pm >= 0 {
            for part in C::parts(p) {
                let Ok(d) = guarded(|| part.enc.len()) else { continue };
                if d == 0 {
                    continue;
                }
                let at = (d as u64 * pm as u64 / 1000) as usize;
                let core = Core::new(trace);
                let mut sink = SimSink(SimWriter::new(&core, c.write_script.clone()).with_faults(&[(at.min(d - 1), Fault::Err(3))]));
                sink.0.tail = c.write_tail;
                let _ = guarded(AssertUnwindSafe(|| part.enc.enc_sink(&mut sink)));
                out.absorb_core(&core, trace);
                out.probe("failed-encode-before");
            }
        }
    }
    let declared = match guarded(|| C::encode_len(p)) {
        Ok(Ok(n)) => Some(n),
        Ok(Err(e)) => {
            out.violate(sig("encode_len-err"), format!("encode_len() of a valid packet returned {e:?}"));
            None
        }
        Err(m) => {
            out.violate(sig("encode_len-panic"), format!("encode_len() panicked: {m}"));
            None
        }
    };
    match guarded(|| C::encode(p)) {
        Ok(Ok(vb)) => {
            let bytes = vb.as_ref();
            out.mix(&bytes[..bytes.len().min(4096)]);
            if let Some(d) = declared {
                if d != bytes.len() {
                    out.violate(
                        sig("len!=bytes"),
                        format!("packet reports encode_len {d} but encode() emitted {} bytes\n  packet: {a:?}", bytes.len()),
                    );
                }
            }
            match spec::ref_frame(bytes) {
                Ok((h, rl)) => {
                    if h > 2 {
                        out.nontrivial = true;
                    }
                    if h + rl != bytes.len() {
                        out.violate(
                            sig("header!=body"),
                            format!(
                                "remaining-length field says {rl} bytes follow the {h}-byte header, {} do\n  packet: {a:?}\n  bytes: {:?}",
                                bytes.len() - h,
                                Bs(bytes[..bytes.len().min(64)].to_vec())
                            ),
                        );
                    }
                }
                Err(e) => out.violate(sig("bad-header"), format!("emitted fixed header does not parse: {e:?}")),
            }
        }
        Ok(Err(e)) => out.violate(sig("encode-err"), format!("encode() of a valid packet returned {e:?}")),
        Err(m) => out.violate(sig("encode-panic"), format!("encode() panicked: {m}\n  packet: {a:?}")),
    }
    // every separately encodable part writes exactly what it declares, whatever the sink does
    for part in C::parts(p) {
        let core = Core::new(trace);
        let mut sink = SimSink(SimWriter::new(&core, c.write_script.clone()));
        sink.0.tail = c.write_tail;
        let dl = guarded(|| part.enc.len());
        let r = guarded(AssertUnwindSafe(|| part.enc.enc_sink(&mut sink)));
        out.absorb_core(&core, trace);
        out.evals += 1;
        match (dl, r) {
            (Ok(d), Ok(Ok(()))) => {
                if d != sink.0.accepted.len() {
                    out.violate(
                        sig(&format!("part:{}:len!=bytes", part.name)),
                        format!("{} reports encode_len {d} but wrote {} bytes\n  packet: {a:?}", part.name, sink.0.accepted.len()),
                    );
                }
            }
            (Err(m), _) => out.violate(sig(&format!("part:{}:encode_len-panic", part.name)), m),
            (_, Ok(Err(e))) => out.violate(sig(&format!("part:{}:sink-err", part.name)), format!("{e:?}")),
            (_, Err(m)) => out.violate(sig(&format!("part:{}:encode-panic", part.name)), m),
        }
    }
}

// ---------------------------------------------------------------------------------------------
// Sizes around the 4-byte remaining-length limit. n[0] = kind, n[1] = delta:
//  kind 0: v3 PUBLISH with a payload so that remaining length = 268,435,455 + delta
//  kind 1: v5 PUBLISH the same
//  kind 2: v5 PUBLISH with user properties sharing one 65,535-byte string so that the property
//          block alone reaches 268,435,455 + delta (delta rounded to what is reachable)

pub fn gen_big(rng: &mut Rng, _tier: Tier, idx: u64) -> Case {
    let kind = (idx % 3) as i64;
    let fam = if kind == 0 { Fam::V311 } else { Fam::V5 };
    let mut c = Case::new("C02", "c02-oversize", fam, Front::B);
    // exactly-at-the-limit packets cost a 256 MiB encode; do them on the first few indices only
    let delta = if idx < 3 { 0 } else if idx < 6 { 1 } else { *rng.pick(&[1i64, 2, 5, 1000, 65_536]) };
    c.n = vec![kind, delta];
    c
}

pub fn run_big(c: &Case, _trace: bool) -> RunOut {
    let mut out = RunOut::default();
    out.evals = 1;
    out.nontrivial = true;
    let kind = c.n.first().copied().unwrap_or(0);
    let delta = c.n.get(1).copied().unwrap_or(0);
    let target = (i64::from(spec::VARINT_MAX) + delta) as usize;
    let sig = |clause: &str| format!("C02:oversize:kind{kind}:{clause}");
    let topic = mqtt_proto::TopicName::try_from("t".to_string()).unwrap();
    let (res_len, res_enc): (Result<Result<usize, String>, String>, Result<Result<Vec<u8>, String>, String>) = match kind {
        0 => {
            let payload = Bytes::from(vec![0u8; target - 3]);
            let p = mqtt_proto::v3::Packet::Publish(mqtt_proto::v3::Publish::new(mqtt_proto::QosPid::Level0, topic, payload));
            (
                guarded(|| p.encode_len().map_err(|e| format!("{e:?}"))),
                guarded(|| p.encode().map(|v| v.as_ref().to_vec()).map_err(|e| format!("{e:?}"))),
            )
        }
        1 => {
            let payload = Bytes::from(vec![0u8; target - 4]);
            let p = v5::Packet::Publish(v5::Publish::new(mqtt_proto::QosPid::Level0, topic, payload));
            (
                guarded(|| p.encode_len().map_err(|e| format!("{e:?}"))),
                guarded(|| p.encode().map(|v| v.as_ref().to_vec()).map_err(|e| format!("{e:?}"))),
            )
        }
        _ => {
            // property block = sum over user properties of (1 + 2 + name + 2 + value)
            let big = Arc::new("u".repeat(65_535));
            let per = 1 + 2 + 65_535 + 2 + 65_535;
            let mut props = v5::PublishProperties::default();
            let mut total = 0usize;
            while total + per <= target {
                props.user_properties.push(v5::UserProperty { name: big.clone(), value: big.clone() });
                total += per;
            }
            // fill the rest with one smaller property where possible
            let rest = target - total;
            if rest >= 5 {
                let n = rest - 5;
                let (a, b) = (n.min(65_535), n.saturating_sub(65_535).min(65_535));
                props.user_properties.push(v5::UserProperty { name: Arc::new("a".repeat(a)), value: Arc::new("b".repeat(b)) });
            }
            let mut publ = v5::Publish::new(mqtt_proto::QosPid::Level0, topic, Bytes::new());
            publ.properties = props;
            let p = v5::Packet::Publish(publ);
            (
                guarded(|| p.encode_len().map_err(|e| format!("{e:?}"))),
                guarded(|| p.encode().map(|v| v.as_ref().to_vec()).map_err(|e| format!("{e:?}"))),
            )
        }
    };
    // kinds 0/1: the remaining length is exactly `target`. kind 2: the property block is about
    // `target`, so the packet as a whole is over the limit whenever delta >= -10.
    let must_fit = kind != 2 && delta <= 0;
    match res_len {
        Err(m) => out.violate(sig("encode_len-panic"), format!("encode_len() panicked instead of returning an error: {m}")),
        Ok(Ok(n)) => {
            if !must_fit {
                out.violate(sig("encode_len-accepts-oversize"), format!("encode_len() returned {n} for a packet beyond the 4-byte remaining length"));
            }
        }
        Ok(Err(e)) => {
            if must_fit {
                out.violate(sig("encode_len-rejects-max"), format!("encode_len() refused a packet of exactly the maximum size: {e}"));
            }
        }
    }
    match res_enc {
        Err(m) => out.violate(sig("encode-panic"), format!("encode() panicked instead of returning an error: {m}")),
        Ok(Ok(bytes)) => {
            if !must_fit {
                out.violate(sig("encode-emits-oversize"), format!("encode() emitted {} bytes for a packet beyond the 4-byte remaining length", bytes.len()));
            } else {
                match spec::ref_frame(&bytes) {
                    Ok((h, rl)) if h + rl == bytes.len() && rl == target => out.probe("max_size_frame_emitted"),
                    other => out.violate(sig("max-frame-wrong"), format!("maximum-size frame is inconsistent: framing {other:?}, {} bytes", bytes.len())),
                }
            }
        }
        Ok(Err(_)) => {
            if must_fit {
                out.violate(sig("encode-rejects-max"), "encode() refused a packet of exactly the maximum size".to_string());
            } else {
                out.probe("oversize_refused");
            }
        }
    }
    out
}
