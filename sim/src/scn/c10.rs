//! C10 — encoder output is a conformant MQTT packet per the independent reference decoder.

use crate::ast::*;
use crate::case::*;
use crate::dispatch;
use crate::fam::Codec;
use crate::fe::Front;
use crate::gen;
use crate::refcodec;
use crate::rng::Rng;
use crate::scn::common::*;
use crate::scn::{Scenario, Tier};
use crate::spec;

pub fn scenarios() -> Vec<Scenario> {
    vec![Scenario {
        property: "C10",
        name: "c10-conform",
        gen,
        run,
        quick_runs: 3_000_000,
        weight: 1,
        rule: "case = valid packet (every type forced in turn, every property id and code variant drawn from the harness tables); non-trivial when it has >= 1 optional field/property/non-zero code; distinct by case hash",
    }]
}

pub fn gen(rng: &mut Rng, tier: Tier, idx: u64) -> Case {
    let mut sw = gen::swarm(rng, tier == Tier::Thorough);
    let all = gen::all_types(sw.fam);
    if idx % 8 == 0 {
        sw.types = vec![all[(idx / 8) as usize % all.len()]];
        // forced coverage of every property / code: all optional fields on
        if idx % 16 == 0 {
            sw.opt_p = 20;
        }
    }
    let mut c = Case::new("C10", "c10-conform", sw.fam, Front::B);
    let mut a = gen::gen_packet(rng, &sw);
    maybe_retarget(rng, &sw, &mut a, 200);
    gen::maybe_retarget_props(rng, sw.fam, &mut a, 40);
    c.packets = vec![a];
    c
}

pub fn run(c: &Case, trace: bool) -> RunOut {
    dispatch!(c.fam, run_g(c, trace))
}

fn run_g<C: Codec>(c: &Case, _trace: bool) -> RunOut {
    let mut out = RunOut::default();
    out.evals = 1;
    let a = &c.packets[0];
    let ty = a.type_name();
    let f = if c.fam.is_v5() { "v5" } else { "v3" };
    let sig = |clause: &str| format!("C10:{f}:{ty}:{clause}");
    out.nontrivial = a.richness() >= 1;
    if let Some(p) = a.props() {
        for (id, _) in p {
            out.probe(spec::prop_name(*id));
        }
    }
    let (p, enc) = match lib_encode::<C>(a) {
        Ok(x) => x,
        Err(m) => {
            let clause = if m.starts_with("bridge") { "bridge-reject" } else { "encode-fails" };
            out.violate(sig(clause), format!("{m}\n  packet: {a:?}"));
            return out;
        }
    };
    out.mix(&enc);
    match refcodec::ref_decode(c.fam, &enc) {
        Ok(got) => {
            if got.canon() != a.canon() {
                out.violate(
                    sig("fields-differ"),
                    format!(
                        "the reference decoder recovers different field values from the encoder's output\n  sent:      {:?}\n  recovered: {:?}\n  bytes: {:?}",
                        a.canon(),
                        got.canon(),
                        Bs(enc.clone())
                    ),
                );
            }
            if C::to_ast(&p).canon() != a.canon() {
                out.violate(sig("bridge-differs"), format!("library value maps to {:?}, generated {:?}", C::to_ast(&p), a.canon()));
            }
        }
        Err(r) => {
            out.violate(
                sig(&format!("ref-rejects:{r:?}")),
                format!("the reference decoder rejects the encoder's output as {r:?}\n  packet: {a:?}\n  bytes: {:?}", Bs(enc.clone())),
            );
        }
    }
    out
}
