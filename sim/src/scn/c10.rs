//! C10 — encoder output is a conformant MQTT packet per the independent reference decoder.

use crate::ast::*;
use crate::case::*;
use crate::dispatch;
use crate::fam::Codec;
use crate::fe::*;
use crate::sim::*;
use crate::gen;
use crate::refcodec;
use crate::rng::Rng;
use crate::scn::common::*;
use crate::scn::{Scenario, Tier};
use crate::spec;

pub fn scenarios() -> Vec<Scenario> {
    vec![Scenario {
        property: "C10",
        name: "c10-conform",
        gen,
        run,
        quick_runs: 3_000_000,
        weight: 1,
        rule: "case = valid packet (every type forced in turn, every property id and code variant drawn from the harness tables); non-trivial when it has >= 1 optional field/property/non-zero code; distinct by case hash",
    }]
}

pub fn gen(rng: &mut Rng, tier: Tier, idx: u64) -> Case {
    let mut sw = gen::swarm(rng, tier == Tier::Thorough);
    let all = gen::all_types(sw.fam);
    if idx % 8 == 0 {
        sw.types = vec![all[(idx / 8) as usize % all.len()]];
        // forced coverage of every property / code: all optional fields on
        if idx % 16 == 0 {
            sw.opt_p = 20;
        }
    }
    let mut c = Case::new("C10", "c10-conform", sw.fam, Front::B);
    let mut a = gen::gen_packet(rng, &sw);
    maybe_retarget(rng, &sw, &mut a, 200);
    gen::maybe_retarget_props(rng, sw.fam, &mut a, 40);
    if rng.chance(1, 3) {
        // the same packet emitted by the async encoder into a sink that delays, shortens and
        // buffers (flush not ready): what reaches the wire must still be that one packet
        let len = refcodec::ref_body_len(&a, sw.fam) + 5;
        let pp = *rng.pick(&[0u64, 200, 1000]);
        let (ws, tail) = gen_write_script(rng, len, pp, 0);
        c.write_script = ws;
        c.write_tail = tail;
        c.writer_style = gen_writer_style(rng);
        c.n = vec![1];
    }
    c.packets = vec![a];
    c
}

pub fn run(c: &Case, trace: bool) -> RunOut {
    dispatch!(c.fam, run_g(c, trace))
}

fn run_g<C: Codec>(c: &Case, _trace: bool) -> RunOut {
    let mut out = RunOut::default();
    out.evals = 1;
    let a = &c.packets[0];
    let ty = a.type_name();
    let f = if c.fam.is_v5() { "v5" } else { "v3" };
    let sig = |clause: &str| format!("C10:{f}:{ty}:{clause}");
    out.nontrivial = a.richness() >= 1;
    if let Some(p) = a.props() {
        for (id, _) in p {
            out.probe(spec::prop_name(*id));
        }
    }
    let (p, enc) = match lib_encode::<C>(a) {
        Ok(x) => x,
        Err(m) => {
            let clause = if m.starts_with("bridge") { "bridge-reject" } else { "encode-fails" };
            out.violate(sig(clause), format!("{m}\n  packet: {a:?}"));
            return out;
        }
    };
    out.mix(&enc);
    if c.n.first() == Some(&1) {
        let core = Core::new(_trace);
        let mut w = SimWriter::new(&core, c.write_script.clone());
        w.tail = c.write_tail;
        let cap = (4 * (enc.len() + c.write_script.len()) + 64) as u32;
        let r = guarded(std::panic::AssertUnwindSafe(|| {
            let mut ex = Exec::new(&core, cap);
            let mut fut = Box::pin(C::encode_async(&p, &mut w));
            ex.run(fut.as_mut()).map(|r| r.is_ok())
        }));
        out.absorb_core(&core, _trace);
        out.evals += 1;
        out.probe("async-emission");
        if let Ok(Ok(true)) = r {
            let wire = &w.accepted;
            let one_frame = matches!(spec::ref_frame(wire), Ok((h, rl)) if h + rl == wire.len());
            let same = one_frame && matches!(refcodec::ref_decode(c.fam, wire), Ok(got) if got.canon() == a.canon());
            if !same {
                out.violate(
                    sig("async-emission"),
                    format!(
                        "what encode_async put on the wire ({} bytes) is not exactly one well-formed packet carrying the original field values (encode() gives {} bytes)\n  packet: {a:?}\n  wire starts: {:?}",
                        wire.len(),
                        enc.len(),
                        Bs(wire[..wire.len().min(48)].to_vec())
                    ),
                );
            }
        }
    }
    match refcodec::ref_decode(c.fam, &enc) {
        Ok(got) => {
            if got.canon() != a.canon() {
                out.violate(
                    sig("fields-differ"),
                    format!(
                        "the reference decoder recovers different field values from the encoder's output\n  sent:      {:?}\n  recovered: {:?}\n  bytes: {:?}",
                        a.canon(),
                        got.canon(),
                        Bs(enc.clone())
                    ),
                );
            }
            if C::to_ast(&p).canon() != a.canon() {
                out.violate(sig("bridge-differs"), format!("library value maps to {:?}, generated {:?}", C::to_ast(&p), a.canon()));
            }
        }
        Err(r) => {
            out.violate(
                sig(&format!("ref-rejects:{r:?}")),
                format!("the reference decoder rejects the encoder's output as {r:?}\n  packet: {a:?}\n  bytes: {:?}", Bs(enc.clone())),
            );
        }
    }
    out
}
