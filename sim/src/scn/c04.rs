//! C04 — the strict (poll) decoder accepts exactly the MQTT grammar, with the right values.
//! Refinement against the reference decoder over grammar-generated frames, legal non-canonical
//! spellings, aimed malformations (F12) and byte-level corruption (F11).

use std::rc::Rc;

use crate::ast::*;
use crate::case::*;
use crate::dispatch;
use crate::fam::Codec;
use crate::fe::*;
use crate::gen;
use crate::malform;
use crate::refcodec::{self, Rej, Style};
use crate::rng::Rng;
use crate::scn::common::*;
use crate::scn::{Scenario, Tier};
use crate::spec;

pub fn scenarios() -> Vec<Scenario> {
    vec![
        Scenario {
            property: "C04",
            name: "c04-grammar",
            gen,
            run,
            quick_runs: 2_000_000,
            weight: 3,
            rule: "case = complete frame: reference encoding of a valid packet in a legal spelling, optionally with 1-3 byte-level corruptions; non-trivial when the packet has >= 1 optional field or the frame is corrupted; distinct by case hash",
        },
        Scenario {
            property: "C04",
            name: "c04-malformed",
            gen: gen_mal,
            run: run_mal,
            quick_runs: 200_000,
            weight: 2,
            rule: "case = valid packet; every applicable catalogue malformation at every applicable site is judged by the reference grammar and by the poll decoder; non-trivial when >= 3 malformations applied; distinct by case hash",
        },
        Scenario {
            property: "C04",
            name: "c04-tiny",
            gen: gen_tiny,
            run: run_tiny,
            quick_runs: 1_000_000,
            weight: 1,
            rule: "case = tiny complete frame enumerated by run index: every type x remaining length 0..=5 x body bytes over {00,01,02,03,10,80,FF}; non-trivial when the body is non-empty; distinct by case hash",
        },
    ]
}

pub fn gen_tiny(rng: &mut Rng, _tier: Tier, idx: u64) -> Case {
    let fam = match idx % 3 {
        0 => Fam::V311,
        1 => Fam::V5,
        _ => gen::pick_fam(rng),
    };
    let mut c = Case::new("C04", "c04-tiny", fam, Front::P);
    c.stream = Bs(small_frame(fam, idx / 3));
    c
}

pub fn run_tiny(c: &Case, trace: bool) -> RunOut {
    dispatch!(c.fam, run_tiny_g(c, trace))
}

fn run_tiny_g<C: Codec>(c: &Case, trace: bool) -> RunOut {
    let mut out = RunOut::default();
    out.nontrivial = c.stream.len() > 2;
    judge::<C>(c.fam, &c.stream.0, "", trace, &mut out);
    out
}

pub fn gen(rng: &mut Rng, tier: Tier, idx: u64) -> Case {
    let mut sw = gen::swarm(rng, tier == Tier::Thorough);
    let all = gen::all_types(sw.fam);
    if idx % 8 == 0 {
        sw.types = vec![all[(idx / 8) as usize % all.len()]];
    }
    let mut c = Case::new("C04", "c04-grammar", sw.fam, Front::P);
    let mut a = gen::gen_packet(rng, &sw);
    maybe_retarget(rng, &sw, &mut a, 200);
    gen::maybe_retarget_props(rng, sw.fam, &mut a, 40);
    c.style = Style {
        spell: rng.below(3) as u8,
        shuffle: if rng.chance(1, 2) { rng.next_u64() | 1 } else { 0 },
        rl_width: 0,
        plen_width: 0,
        stray_will_retain: rng.chance(1, 8),
        pvar_width: 0,
    };
    // a legal but unusual variant: the same Subscription Identifier twice in PUBLISH etc. is
    // produced by the dedicated generator below
    if sw.fam.is_v5() && rng.chance(1, 40) {
        if let Ast::Publish { props, .. } = &mut a {
            props.push((0x0B, PVal::Var(gen::gen_varint_value(rng))));
            props.push((0x0B, PVal::Var(gen::gen_varint_value(rng))));
        }
    }
    let enc = refcodec::ref_encode(&a, sw.fam, &c.style);
    c.packets = vec![a];
    if rng.chance(1, 2) {
        let n = rng.urange(1, 3);
        c.mutations = gen_mutations(rng, enc.bytes.len(), &span_bounds(&enc.spans), n);
        c.n = vec![i64::from(rng.chance(2, 3))];
    }
    c
}

/// n[0] == 1: after the corruption the fixed header is rewritten so that it declares exactly
/// the bytes that follow (keeps damaged bodies inside the property's domain of complete frames).
pub fn build_frame(c: &Case) -> Vec<u8> {
    let mut s = refcodec::ref_encode(&c.packets[0], c.fam, &c.style).bytes;
    apply_mutations(&mut s, &c.mutations);
    if c.n.first().copied().unwrap_or(0) == 1 && !s.is_empty() {
        let first = s[0];
        let body: Vec<u8> = match spec::read_varint(&s[1..]) {
            Ok((_, n, _)) => s[1 + n..].to_vec(),
            Err(_) => s[1..].to_vec(),
        };
        if body.len() as u64 <= u64::from(spec::VARINT_MAX) {
            s = refcodec::frame(first, &body, 0).0;
        }
    }
    s
}

pub fn run(c: &Case, trace: bool) -> RunOut {
    dispatch!(c.fam, run_g(c, trace))
}

fn run_g<C: Codec>(c: &Case, trace: bool) -> RunOut {
    let mut out = RunOut::default();
    let frame = build_frame(c);
    out.nontrivial = !c.mutations.is_empty() || c.packets[0].richness() >= 1;
    judge::<C>(c.fam, &frame, "", trace, &mut out);
    out
}

/// Compare the poll decoder with the reference grammar on one complete frame.
pub fn judge<C: Codec>(fam: Fam, frame: &[u8], label: &str, trace: bool, out: &mut RunOut) {
    let f = if fam.is_v5() { "v5" } else { "v3" };
    let ty = type_of_stream(frame);
    let r = refcodec::ref_decode(fam, frame);
    if matches!(r, Err(Rej::NotAFrame) | Err(Rej::NonMinimal)) {
        // outside the quantifier of C04 (not a complete frame / non-minimal integers)
        out.evals += 1;
        out.probe("outside-domain");
        return;
    }
    // any inner non-minimal variable byte integer also puts the frame outside the domain
    let stream = Rc::new(frame.to_vec());
    let pr = run_p::<C>(&stream, &[], 0, &[], &[], false, trace, out);
    match (&r, &pr.fe) {
        (Ok(want), Fe::Ok { pkt, .. }) => {
            out.probe("both-accept");
            let got = C::to_ast(pkt);
            if got.canon() != want.canon() {
                out.violate(
                    format!("C04:{f}:{ty}:values-differ"),
                    format!(
                        "{label}both accept the frame but the field values differ\n  specification: {:?}\n  library:       {:?}\n  frame: {:?}",
                        want.canon(),
                        got.canon(),
                        Bs(frame.to_vec())
                    ),
                );
            }
        }
        (Err(_), Fe::Err { .. }) => out.probe("both-reject"),
        (Ok(want), other) => {
            // qualifier: the one legal construct the library is known not to support
            let multi = matches!(want, Ast::Publish { props, .. } if props.iter().filter(|(id, _)| *id == 0x0B).count() >= 2);
            let lib = match other {
                Fe::Err { e, .. } if C::norm(e).text.len() <= 48 => C::norm(e).text,
                _ => fe_class::<C>(other),
            };
            out.violate(
                format!("C04:{f}:{ty}:ref=accept{}:lib={lib}", if multi { "(repeated-subscription-id)" } else { "" }),
                format!(
                    "{label}well-formed frame rejected by the poll decoder: {}\n  specification reads it as: {:?}\n  frame: {:?}",
                    fe_long::<C>(other),
                    want,
                    Bs(frame.to_vec())
                ),
            );
        }
        (Err(rej), other) => {
            out.violate(
                format!("C04:{f}:{ty}:ref={rej:?}:lib={}", fe_class::<C>(other)),
                format!(
                    "{label}malformed frame (reference grammar: {rej:?}) not rejected by the poll decoder: {}\n  frame: {:?}",
                    fe_long::<C>(other),
                    Bs(frame.to_vec())
                ),
            );
        }
    }
    let _ = spec::VARINT_MAX;
}

pub fn gen_mal(rng: &mut Rng, tier: Tier, idx: u64) -> Case {
    let mut c = crate::scn::c20::gen(rng, tier, idx);
    c.property = "C04".into();
    c.scenario = "c04-malformed".into();
    c.read_script.clear();
    c.read_tail = 0;
    c
}

pub fn run_mal(c: &Case, trace: bool) -> RunOut {
    dispatch!(c.fam, run_mal_g(c, trace))
}

fn run_mal_g<C: Codec>(c: &Case, trace: bool) -> RunOut {
    let mut out = RunOut::default();
    let mals = malform::enumerate(&c.packets[0], c.fam);
    out.nontrivial = mals.len() >= 3;
    for m in mals {
        let label = format!("[malformation {} {}] ", m.name, m.site);
        judge::<C>(c.fam, &m.frame, &label, trace, &mut out);
        if out.violations.len() >= 6 {
            break;
        }
    }
    out
}
