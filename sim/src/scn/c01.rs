//! C01 — encode -> decode identity on the three front-ends over a fault-free link with a
//! random delivery schedule.

use std::rc::Rc;

use crate::ast::*;
use crate::case::*;
use crate::dispatch;
use crate::fam::Codec;
use crate::fe::*;
use crate::gen;
use crate::rng::Rng;
use crate::scn::common::*;
use crate::scn::{Scenario, Tier};
use crate::spec;

pub fn scenarios() -> Vec<Scenario> {
    vec![Scenario {
        property: "C01",
        name: "c01-roundtrip",
        gen,
        run,
        quick_runs: 3_000_000,
        weight: 1,
        rule: "case = (valid packet, delivery schedule); non-trivial when the packet has >= 1 optional field/property/non-zero code or a body >= 128 bytes; distinct by case hash",
    }]
}

pub fn gen(rng: &mut Rng, tier: Tier, idx: u64) -> Case {
    if tier == Tier::Thorough && idx < 4 && !gen::tiny() {
        // the largest frames the 4-byte remaining length allows (thorough only: ~1 GiB peak)
        let fam = if idx % 2 == 0 { Fam::V311 } else { Fam::V5 };
        let mut c = Case::new("C01", "c01-roundtrip", fam, Front::P);
        let over = if fam.is_v5() { 4 } else { 3 };
        let n = 268_435_455 - over - if idx >= 2 { 1 } else { 0 };
        c.packets = vec![Ast::Publish { dup: false, qos: 0, retain: false, topic: Bs::s("t"), pid: None, props: vec![], payload: Bs(vec![0u8; n]) }];
        c.read_tail = 1 << 20;
        return c;
    }
    let mut sw = gen::swarm(rng, tier == Tier::Thorough);
    let all = gen::all_types(sw.fam);
    if idx % 16 == 0 {
        sw.types = vec![all[(idx / 16) as usize % all.len()]];
    }
    let mut c = Case::new("C01", "c01-roundtrip", sw.fam, Front::P);
    let mut a = gen::gen_packet(rng, &sw);
    maybe_retarget(rng, &sw, &mut a, if tier == Tier::Thorough { 64 } else { 200 });
    gen::maybe_retarget_props(rng, sw.fam, &mut a, 40);
    let len = crate::refcodec::ref_body_len(&a, sw.fam) + 5;
    c.packets = vec![a];
    let pp = *rng.pick(&[0u64, 0, 100, 400]);
    let (script, tail) = gen_read_script(rng, len, pp, &[]);
    let cp = *rng.pick(&[0u64, 500]);
    c.cancel = gen_cancel(rng, &script, cp);
    c.read_script = script;
    c.read_tail = tail;
    c.reader_style = rng.below(3) as u8;
    if rng.chance(1, 3) {
        // the packet is not the last thing on the stream: bytes of a following packet are already
        // there (pipelined peer); they must not leak into this packet
        let n = rng.urange(1, 16);
        let mut sfx = rng.bytes(n);
        if rng.bool() {
            sfx[0] = 0xC0;
        }
        c.suffix = Bs(sfx);
    }
    c
}

pub fn run(c: &Case, trace: bool) -> RunOut {
    dispatch!(c.fam, run_g(c, trace))
}

fn fam_s(c: &Case) -> &'static str {
    if c.fam.is_v5() {
        "v5"
    } else {
        "v3"
    }
}

fn run_g<C: Codec>(c: &Case, trace: bool) -> RunOut {
    let mut out = RunOut::default();
    out.evals = 1;
    let a = &c.packets[0];
    let ty = a.type_name();
    out.nontrivial = a.richness() >= 1;
    let (p, enc) = match lib_encode::<C>(a) {
        Ok(x) => x,
        Err(m) => {
            let clause = if m.starts_with("bridge") {
                "bridge-reject"
            } else if m.contains("panicked") {
                "encode-panic"
            } else {
                "encode-err"
            };
            out.violate(format!("C01:{}:{ty}:{clause}", fam_s(c)), format!("{m}\n  packet: {a:?}"));
            return out;
        }
    };
    if enc.len() >= 130 {
        out.nontrivial = true;
    }
    out.mix(&enc);
    let len = enc.len();
    let mut enc = enc;
    enc.extend_from_slice(&c.suffix.0);
    let stream = Rc::new(enc);
    let h = spec::ref_frame(&stream).map(|x| x.0).unwrap_or(0);

    let b = fe_block::<C>(&stream);
    let ar = run_a::<C>(&stream, &c.read_script, c.read_tail, &[], trace, &mut out);
    let pr = run_p::<C>(&stream, &c.read_script, c.read_tail, &c.cancel, &[], false, trace, &mut out);
    for (name, fe) in [("B", &b), ("A", &ar.fe), ("P", &pr.fe)] {
        match fe {
            Fe::Ok { pkt, consumed, total, body } => {
                if *pkt != p {
                    out.violate(
                        format!("C01:{}:{ty}:{name}:packet-differs", fam_s(c)),
                        format!("front-end {name} decoded a different packet\n  sent:    {p:?}\n  decoded: {}", safe_debug(pkt)),
                    );
                } else if C::to_ast(pkt).canon() != a.canon() {
                    out.violate(
                        format!("C01:{}:{ty}:{name}:ast-differs", fam_s(c)),
                        format!("decoded packet equals the sent one by PartialEq but its field values differ from the generated ones\n  generated: {:?}\n  decoded:   {:?}", a.canon(), C::to_ast(pkt)),
                    );
                }
                let _ = consumed;
                if name == "P" {
                    if *total != Some(len) {
                        out.violate(
                            format!("C01:{}:{ty}:P:total", fam_s(c)),
                            format!("poll decoder reports total {total:?}, the encoding is {len} bytes"),
                        );
                    }
                    if body.as_deref() != Some(&stream[h..len]) {
                        out.violate(
                            format!("C01:{}:{ty}:P:body", fam_s(c)),
                            "poll decoder's raw body differs from the encoded body".to_string(),
                        );
                    }
                }
            }
            other => {
                out.violate(
                    format!("C01:{}:{ty}:{name}:decode={}", fam_s(c), fe_class::<C>(other)),
                    format!(
                        "front-end {name} did not return the packet: {}\n  sent: {p:?}\n  bytes: {:?}",
                        fe_long::<C>(other),
                        Bs(stream.to_vec())
                    ),
                );
            }
        }
    }
    for v in ar.sim_violations.iter().chain(pr.sim_violations.iter()).filter(|v| v.contains(crate::sim::LOST_WAKE)) {
        out.violate(format!("C01:{}:{ty}:hang", fam_s(c)), v.clone());
    }
    out
}
