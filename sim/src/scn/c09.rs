//! C09 — all encoder entry points emit the same bytes: `encode()` twice, `encode_async` into a
//! SimWriter under short writes and not-ready results, and the body's streaming encoder into a
//! SimSink under short writes and EINTR.

use std::panic::AssertUnwindSafe;
use std::pin::Pin;

use mqtt_proto::VarBytes;

use crate::ast::*;
use crate::case::*;
use crate::dispatch;
use crate::fam::Codec;
use crate::fe::*;
use crate::gen;
use crate::refcodec;
use crate::rng::Rng;
use crate::scn::common::*;
use crate::scn::{Scenario, Tier};
use crate::sim::*;
use crate::spec;

pub fn scenarios() -> Vec<Scenario> {
    vec![Scenario {
        property: "C09",
        name: "c09-entrypoints",
        gen,
        run,
        quick_runs: 1_500_000,
        weight: 1,
        rule: "case = (valid packet, sink behaviour); non-trivial when the sink script has a short write, a Pending or an EINTR; distinct by case hash",
    }]
}

pub fn gen(rng: &mut Rng, tier: Tier, idx: u64) -> Case {
    let mut sw = gen::swarm(rng, tier == Tier::Thorough);
    let all = gen::all_types(sw.fam);
    if idx % 16 == 0 {
        sw.types = vec![all[(idx / 16) as usize % all.len()]];
    }
    let mut c = Case::new("C09", "c09-entrypoints", sw.fam, Front::B);
    let mut a = gen::gen_packet(rng, &sw);
    maybe_retarget(rng, &sw, &mut a, 200);
    if let Ast::Publish { payload, props, .. } = &mut a {
        // payloads at and above 64 KiB at a useful rate: encoders like to special-case them
        if rng.chance(1, 30) && !gen::tiny() && !props.iter().any(|(id, _)| *id == 0x01) {
            let n = *rng.pick(&[65_535usize, 65_536, 65_537, 100_000, 131_072]);
            *payload = Bs(vec![0x5A; n]);
        }
    }
    gen::maybe_retarget_props(rng, sw.fam, &mut a, 40);
    let len = refcodec::ref_body_len(&a, sw.fam) + 5;
    c.packets = vec![a];
    if rng.chance(1, 4) {
        // a second packet, encoded by a second task on the same thread while the first is suspended
        let b = gen::gen_packet(rng, &sw);
        c.packets.push(b);
    }
    let pp = *rng.pick(&[0u64, 100, 500, 1000]);
    let ep = *rng.pick(&[0u64, 100, 400]);
    let (ws, tail) = gen_write_script(rng, len, pp, ep);
    c.write_script = ws;
    c.write_tail = tail;
    c.writer_style = gen_writer_style(rng);
    c
}

pub fn run(c: &Case, trace: bool) -> RunOut {
    dispatch!(c.fam, run_g(c, trace))
}

pub fn varbytes_inner(v: &VarBytes) -> Vec<u8> {
    match v {
        VarBytes::Dynamic(x) => x.clone(),
        VarBytes::Fixed2(a) => a.to_vec(),
        VarBytes::Fixed4(a) => a.to_vec(),
    }
}

fn run_g<C: Codec>(c: &Case, trace: bool) -> RunOut {
    let mut out = RunOut::default();
    out.evals = 1;
    let a = &c.packets[0];
    let ty = a.type_name();
    let f = if c.fam.is_v5() { "v5" } else { "v3" };
    let sig = |clause: &str| format!("C09:{f}:{ty}:{clause}");
    out.nontrivial = c.write_tail == 1
        || c.write_script.iter().any(|e| !matches!(e, WriteEv::Accept(usize::MAX)));
    let Some(p) = C::from_ast(a) else {
        out.violate(sig("bridge-reject"), format!("library constructors reject {a:?}"));
        return out;
    };
    // blocking encoder, twice
    let e1 = guarded(|| C::encode(&p));
    let e2 = guarded(|| C::encode(&p));
    let (vb1, vb2) = match (e1, e2) {
        (Ok(Ok(x)), Ok(Ok(y))) => (x, y),
        (x, _) => {
            let clause = if x.is_err() { "encode-panic" } else { "encode-err" };
            out.violate(sig(clause), format!("encode() failed: {:?}\n  packet: {p:?}", x.map(|r| r.map(|_| ()))));
            return out;
        }
    };
    let bytes = vb1.as_ref().to_vec();
    out.mix(&bytes);
    if vb2.as_ref() != bytes.as_slice() {
        out.violate(sig("repeat-differs"), "two invocations of encode() returned different bytes".to_string());
    }
    if varbytes_inner(&vb1) != bytes {
        out.violate(sig("as_ref"), "VarBytes::as_ref() differs from the bytes the container holds".to_string());
    }
    // async encoder into a faulty-but-legal sink
    {
        let core = Core::new(trace);
        let mut w = SimWriter::new(&core, c.write_script.clone());
        w.tail = c.write_tail;
        let cap = (4 * (bytes.len() + c.write_script.len()) + 64) as u32;
        let r = guarded(AssertUnwindSafe(|| {
            let mut ex = Exec::new(&core, cap);
            let mut fut = Box::pin(C::encode_async(&p, &mut w));
            ex.run(fut.as_mut())
        }));
        out.absorb_core(&core, trace);
        out.evals += 1;
        match r {
            Ok(Ok(Ok(()))) => {
                if w.accepted != bytes {
                    out.violate(
                        sig("async-bytes"),
                        format!(
                            "encode_async wrote {} bytes that differ from encode() ({} bytes); first difference at {:?}",
                            w.accepted.len(),
                            bytes.len(),
                            w.accepted.iter().zip(bytes.iter()).position(|(x, y)| x != y)
                        ),
                    );
                }
            }
            Ok(Ok(Err(e))) => out.violate(sig("async-err"), format!("encode_async failed on a sink that only delays and shortens writes: {e:?}")),
            Ok(Err(_)) => out.violate(sig("async-stuck"), "encode_async made no progress within the poll cap".to_string()),
            Err(m) => out.violate(sig("async-panic"), format!("encode_async panicked: {m}")),
        }
        for v in core.borrow().sim_violations.iter().filter(|v| v.contains(crate::sim::LOST_WAKE)) {
            out.violate(sig("async-hang"), v.clone());
        }
    }
    // two encoder tasks interleaved on one thread (joined: each is polled whenever the other is
    // suspended on its sink): each sink must still receive exactly its own packet
    if let Some(a2) = c.packets.get(1) {
        if let (Some(p2), true) = (C::from_ast(a2), bytes.len() < (1 << 20)) {
            if let Ok(Ok(vb)) = guarded(|| C::encode(&p2)) {
                let bytes2 = vb.as_ref().to_vec();
                let core = Core::new(trace);
                let mut w1 = SimWriter::new(&core, c.write_script.clone());
                w1.tail = c.write_tail;
                // the second sink follows the same script read backwards: its suspensions fall elsewhere
                let mut rev = c.write_script.clone();
                rev.reverse();
                let mut w2 = SimWriter::new(&core, rev);
                w2.tail = c.write_tail;
                let cap = (4 * (bytes.len() + bytes2.len() + 2 * c.write_script.len()) + 128) as u32;
                let r = guarded(AssertUnwindSafe(|| {
                    let mut ex = Exec::new(&core, cap);
                    let mut fut = Join2 {
                        a: Box::pin(async { C::encode_async(&p, &mut w1).await.map_err(|e| format!("{e:?}")) }),
                        b: Box::pin(async { C::encode_async(&p2, &mut w2).await.map_err(|e| format!("{e:?}")) }),
                        ra: None,
                        rb: None,
                    };
                    ex.run(Pin::new(&mut fut))
                }));
                out.absorb_core(&core, trace);
                out.evals += 1;
                out.probe("two-encoders-interleaved");
                match r {
                    Ok(Ok((Ok(()), Ok(())))) => {
                        for (i, (got, want)) in [(&w1.accepted, &bytes), (&w2.accepted, &bytes2)].into_iter().enumerate() {
                            if got != want {
                                out.violate(
                                    sig("interleaved-bytes"),
                                    format!(
                                        "two encode_async tasks interleaved on one thread: sink {} received {} bytes that differ from encode() of its packet ({} bytes); first difference at {:?}\n  other packet: {a2:?}",
                                        i + 1,
                                        got.len(),
                                        want.len(),
                                        got.iter().zip(want.iter()).position(|(x, y)| x != y)
                                    ),
                                );
                            }
                        }
                    }
                    Ok(Ok((x, y))) => out.violate(sig("interleaved-err"), format!("interleaved encode_async failed on sinks that only delay and shorten writes: {x:?} / {y:?}")),
                    Ok(Err(_)) => out.violate(sig("interleaved-stuck"), "interleaved encode_async made no progress within the poll cap".to_string()),
                    Err(m) => out.violate(sig("interleaved-panic"), format!("interleaved encode_async panicked: {m}\n  other packet: {a2:?}")),
                }
            }
        }
    }
    // streaming body encoder into a sync sink with short writes and EINTR
    for part in C::parts(&p) {
        if !part.is_body {
            continue;
        }
        let core = Core::new(trace);
        let mut sink = SimSink(SimWriter::new(&core, c.write_script.clone()));
        sink.0.tail = c.write_tail;
        let r = guarded(AssertUnwindSafe(|| part.enc.enc_sink(&mut sink)));
        out.absorb_core(&core, trace);
        out.evals += 1;
        match r {
            Ok(Ok(())) => {
                let body = &sink.0.accepted;
                let mut expect = vec![refcodec::first_byte(a, c.fam.is_v5())];
                expect.extend_from_slice(&spec::varint(body.len() as u32));
                expect.extend_from_slice(body);
                if expect != bytes {
                    out.violate(
                        sig("header+body"),
                        format!(
                            "encode() is not [control byte {:#04x}] ++ varint(body length {}) ++ streamed body; encode() gave {} bytes starting {:02x?}",
                            expect[0],
                            body.len(),
                            bytes.len(),
                            &bytes[..bytes.len().min(6)]
                        ),
                    );
                }
            }
            Ok(Err(e)) => out.violate(sig("sink-err"), format!("streaming encode failed on a sink that only shortens writes / raises EINTR: {e:?}")),
            Err(m) => out.violate(sig("sink-panic"), format!("streaming encode panicked: {m}")),
        }
    }
    out
}
