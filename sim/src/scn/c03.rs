//! C03 — decoders are total on arbitrary bytes: every entry point returns (packet | incomplete
//! | error); no panic (debug assertions and overflow checks on), no spin, bounded progress,
//! reads within the granted capacity. Memory safety proper is the Miri leg of the same binary.

use std::rc::Rc;

use crate::case::*;
use crate::dispatch;
use crate::fam::Codec;
use crate::fe::*;
use crate::rng::Rng;
use crate::scn::common::*;
use crate::scn::{Scenario, Tier};
use crate::sim::*;

pub fn scenarios() -> Vec<Scenario> {
    vec![Scenario {
        property: "C03",
        name: "c03-hostile",
        gen,
        run,
        quick_runs: 1_500_000,
        weight: 1,
        rule: "case = (hostile byte stream, delivery schedule) given to B, A, P, Header::decode, Header::decode_async and decode_raw_header; streams: corrupted valid traffic, plausible header + random body, all strings of <= 2 bytes and every (control, length) pair by run index, maximal declared lengths over short bodies; non-trivial when the stream has >= 2 bytes; distinct by case hash",
    }]
}

pub fn gen(rng: &mut Rng, tier: Tier, idx: u64) -> Case {
    if idx % 2 == 1 {
        // odd indices enumerate short prologues: the empty string, every 1-byte string, every
        // 2-byte string (= every control byte / length byte pair), then again every pair
        // followed by 0..8 random bytes
        let fam = crate::gen::pick_fam(rng);
        let mut c = Case::new("C03", "c03-hostile", fam, Front::P);
        let k = idx / 2;
        c.stream = crate::ast::Bs(if k == 0 {
            vec![]
        } else if k <= 256 {
            vec![(k - 1) as u8]
        } else {
            let v = (k - 257) % 65_536;
            let mut s = vec![(v >> 8) as u8, (v & 0xff) as u8];
            if k > 256 + 65_536 {
                let n = rng.urange(0, 8);
                s.extend_from_slice(&rng.bytes(n));
            }
            s
        });
        let pp = *rng.pick(&[0u64, 200]);
        let (script, tail) = gen_read_script(rng, 12, pp, &[]);
        c.cancel = gen_cancel(rng, &script, 500);
        c.read_script = script;
        c.read_tail = tail;
        c.reader_style = rng.below(3) as u8;
        return c;
    }
    hostile_case(rng, tier, idx, "C03", "c03-hostile", 10)
}

pub fn run(c: &Case, trace: bool) -> RunOut {
    dispatch!(c.fam, run_g(c, trace))
}

fn run_g<C: Codec>(c: &Case, trace: bool) -> RunOut {
    let mut out = RunOut::default();
    let f = if c.fam.is_v5() { "v5" } else { "v3" };
    let stream = Rc::new(hostile_stream(c));
    out.nontrivial = stream.len() >= 2;
    let ty = type_of_stream(&stream);
    let check = |entry: &str, class: &str, detail: String, out: &mut RunOut| {
        out.violate(format!("C03:{f}:{ty}:{entry}:{class}"), detail);
    };
    // B
    let b = fe_block::<C>(&stream);
    out.evals += 1;
    if let Fe::Panic(m) | Fe::Stuck(m) = &b {
        check("B", b.kind(), format!("Packet::decode on {:?}: {m}", crate::ast::Bs(stream.to_vec())), &mut out);
    }
    // A, P under the schedule
    let ar = run_a::<C>(&stream, &c.read_script, c.read_tail, &[], trace, &mut out);
    if let Fe::Panic(m) | Fe::Stuck(m) = &ar.fe {
        check("A", ar.fe.kind(), format!("decode_async on {:?}: {m}", crate::ast::Bs(stream.to_vec())), &mut out);
    }
    let pr = run_p::<C>(&stream, &c.read_script, c.read_tail, &c.cancel, &[], false, trace, &mut out);
    if let Fe::Panic(m) | Fe::Stuck(m) = &pr.fe {
        check("P", pr.fe.kind(), format!("PollPacket on {:?}: {m}", crate::ast::Bs(stream.to_vec())), &mut out);
    }
    for v in ar.sim_violations.iter().chain(pr.sim_violations.iter()).filter(|v| v.contains(crate::sim::LOST_WAKE)) {
        check("AP", "hang", v.clone(), &mut out);
    }
    // bare header entry points
    match guarded(|| C::header_decode(&stream)) {
        Ok(_) => {}
        Err(m) => check("Header::decode", "Panic", m, &mut out),
    }
    out.evals += 1;
    {
        let core = Core::new(trace);
        let mut rd = SimReader::new(&core, stream.clone(), c.read_script.clone());
        rd.tail = c.read_tail;
        let r = guarded(std::panic::AssertUnwindSafe(|| {
            let mut ex = Exec::new(&core, poll_cap(stream.len(), &c.read_script));
            let mut fut = Box::pin(C::header_decode_async(&mut rd));
            ex.run(fut.as_mut()).map(|r| r.is_ok())
        }));
        out.absorb_core(&core, trace);
        out.evals += 1;
        match r {
            Ok(Ok(_)) => {}
            Ok(Err(_)) => check("Header::decode_async", "Stuck", "poll cap exceeded".into(), &mut out),
            Err(m) => check("Header::decode_async", if m.contains("SIM-SPIN") { "Stuck" } else { "Panic" }, m, &mut out),
        }
    }
    {
        let core = Core::new(trace);
        let mut rd = SimReader::new(&core, stream.clone(), c.read_script.clone());
        rd.tail = c.read_tail;
        let r = guarded(std::panic::AssertUnwindSafe(|| {
            let mut ex = Exec::new(&core, poll_cap(stream.len(), &c.read_script));
            let mut fut = Box::pin(mqtt_proto::decode_raw_header(&mut rd));
            ex.run(fut.as_mut()).map(|r| r.is_ok())
        }));
        out.absorb_core(&core, trace);
        out.evals += 1;
        match r {
            Ok(Ok(_)) => {}
            Ok(Err(_)) => check("decode_raw_header", "Stuck", "poll cap exceeded".into(), &mut out),
            Err(m) => check("decode_raw_header", if m.contains("SIM-SPIN") { "Stuck" } else { "Panic" }, m, &mut out),
        }
    }
    match (&b, &pr.fe) {
        (Fe::Ok { .. }, _) | (_, Fe::Ok { .. }) => out.probe("accepted"),
        _ => out.probe("rejected"),
    }
    out
}
