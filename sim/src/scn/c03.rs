//! C03 — decoders are total on arbitrary bytes: every entry point returns (packet | incomplete
//! | error); no panic (debug assertions and overflow checks on), no spin, bounded progress,
//! reads within the granted capacity. Memory safety proper is the Miri leg of the same binary.

use std::rc::Rc;

use mqtt_proto::GenericPollPacketState;

use crate::case::*;
use crate::dispatch;
use crate::fam::Codec;
use crate::fe::*;
use crate::rng::Rng;
use crate::scn::common::*;
use crate::scn::{Scenario, Tier};
use crate::sim::*;

pub fn scenarios() -> Vec<Scenario> {
    vec![Scenario {
        property: "C03",
        name: "c03-hostile",
        gen,
        run,
        quick_runs: 1_500_000,
        weight: 1,
        rule: "case = (hostile byte stream, delivery schedule) given to B, A, P, Header::decode, Header::decode_async and decode_raw_header; streams: corrupted valid traffic, plausible header + random body, all strings of <= 2 bytes and every (control, length) pair by run index, maximal declared lengths over short bodies; non-trivial when the stream has >= 2 bytes; distinct by case hash",
    }]
}

pub fn gen(rng: &mut Rng, tier: Tier, idx: u64) -> Case {
    if idx % 2 == 1 {
        // odd indices enumerate short prologues: the empty string, every 1-byte string, every
        // 2-byte string (= every control byte / length byte pair), then again every pair
        // followed by 0..8 random bytes
        let fam = crate::gen::pick_fam(rng);
        let mut c = Case::new("C03", "c03-hostile", fam, Front::P);
        let k = idx / 2;
        c.stream = crate::ast::Bs(if k == 0 {
            vec![]
        } else if k <= 256 {
            vec![(k - 1) as u8]
        } else {
            let v = (k - 257) % 65_536;
            let mut s = vec![(v >> 8) as u8, (v & 0xff) as u8];
            if k > 256 + 65_536 {
                let n = rng.urange(0, 8);
                s.extend_from_slice(&rng.bytes(n));
            }
            s
        });
        let pp = *rng.pick(&[0u64, 200]);
        let (script, tail) = gen_read_script(rng, 12, pp, &[]);
        c.cancel = gen_cancel(rng, &script, 500);
        c.read_script = script;
        c.read_tail = tail;
        c.reader_style = rng.below(3) as u8;
        trouble(rng, &mut c);
        return c;
    }
    let mut c = hostile_case(rng, tier, idx, "C03", "c03-hostile", 10);
    trouble(rng, &mut c);
    c
}

/// Transport trouble on top of the hostile bytes (one run in three): a read error of a random
/// kind, or a close, at a small byte position, after which the caller tries again with the state
/// it holds (a transient failure such as Interrupted / WouldBlock / TimedOut invites exactly that).
fn trouble(rng: &mut Rng, c: &mut Case) {
    if !rng.chance(1, 3) {
        return;
    }
    let pos = if rng.chance(2, 3) { rng.urange(0, 6) } else { rng.urange(0, 40) };
    if rng.chance(2, 3) {
        let kid = if rng.chance(1, 2) { rng.below(3) as u8 } else { rng.below(KINDS.len() as u64) as u8 };
        c.read_faults = vec![(pos, kid)];
    } else {
        c.cut = Some(pos);
    }
}

pub fn run(c: &Case, trace: bool) -> RunOut {
    dispatch!(c.fam, run_g(c, trace))
}

fn run_g<C: Codec>(c: &Case, trace: bool) -> RunOut {
    let mut out = RunOut::default();
    let f = if c.fam.is_v5() { "v5" } else { "v3" };
    let stream = Rc::new(hostile_stream(c));
    out.nontrivial = stream.len() >= 2;
    let ty = type_of_stream(&stream);
    let check = |entry: &str, class: &str, detail: String, out: &mut RunOut| {
        out.violate(format!("C03:{f}:{ty}:{entry}:{class}"), detail);
    };
    // B
    let b = fe_block::<C>(&stream);
    out.evals += 1;
    if let Fe::Panic(m) | Fe::Stuck(m) = &b {
        check("B", b.kind(), format!("Packet::decode on {:?}: {m}", crate::ast::Bs(stream.to_vec())), &mut out);
    }
    // A, P under the schedule
    let ar = run_a::<C>(&stream, &c.read_script, c.read_tail, &c.read_faults, trace, &mut out);
    if let Fe::Panic(m) | Fe::Stuck(m) = &ar.fe {
        check("A", ar.fe.kind(), format!("decode_async on {:?}: {m}", crate::ast::Bs(stream.to_vec())), &mut out);
    }
    let pr = run_p::<C>(&stream, &c.read_script, c.read_tail, &c.cancel, &[], false, trace, &mut out);
    if let Fe::Panic(m) | Fe::Stuck(m) = &pr.fe {
        check("P", pr.fe.kind(), format!("PollPacket on {:?}: {m}", crate::ast::Bs(stream.to_vec())), &mut out);
    }
    for v in ar.sim_violations.iter().chain(pr.sim_violations.iter()).filter(|v| v.contains(crate::sim::LOST_WAKE)) {
        check("AP", "hang", v.clone(), &mut out);
    }
    // transport trouble, then a second attempt from the caller-held state: the decoder may fail
    // again or succeed, but it must return
    if !c.read_faults.is_empty() || c.cut.is_some() {
        let first: Rc<Vec<u8>> = match c.cut {
            Some(k) => Rc::new(stream[..k.min(stream.len())].to_vec()),
            None => stream.clone(),
        };
        let core = Core::new(trace);
        let mut st = GenericPollPacketState::<C::Header>::default();
        let mut rd = SimReader::new(&core, first.clone(), c.read_script.clone()).with_faults(&c.read_faults);
        rd.tail = c.read_tail;
        let cap = poll_cap(stream.len(), &c.read_script);
        let r1 = fe_poll::<C>(&core, &mut st, &mut rd, &c.cancel, cap, None);
        out.evals += 1;
        if let Fe::Panic(m) | Fe::Stuck(m) = &r1 {
            check("P", r1.kind(), format!("PollPacket on {:?} with read faults {:?} / close at {:?}: {m}", crate::ast::Bs(stream.to_vec()), c.read_faults, c.cut), &mut out);
        }
        let transport_failure = matches!(&r1, Fe::Err { e, .. } if C::norm(e).io_kind.is_some());
        if transport_failure {
            out.probe("retry_after_transport_failure");
            let rest = Rc::new(stream[rd.pos.min(stream.len())..].to_vec());
            let mut rd2 = SimReader::new(&core, rest, vec![]);
            let r2 = fe_poll::<C>(&core, &mut st, &mut rd2, &[], cap, None);
            out.evals += 1;
            if let Fe::Panic(m) | Fe::Stuck(m) = &r2 {
                check(
                    "P-retry",
                    r2.kind(),
                    format!(
                        "PollPacket polled again from the caller-held state after the transport failed ({}) at byte {} of {:?}: {m}",
                        fe_brief::<C>(&r1),
                        rd.pos,
                        crate::ast::Bs(stream.to_vec())
                    ),
                    &mut out,
                );
            }
            if matches!(r2, Fe::Ok { .. }) {
                out.probe("retry_completed_packet");
            }
        }
        out.absorb_core(&core, trace);
    }
    // bare header entry points
    match guarded(|| C::header_decode(&stream)) {
        Ok(_) => {}
        Err(m) => check("Header::decode", "Panic", m, &mut out),
    }
    out.evals += 1;
    {
        let core = Core::new(trace);
        let mut rd = SimReader::new(&core, stream.clone(), c.read_script.clone());
        rd.tail = c.read_tail;
        let r = guarded(std::panic::AssertUnwindSafe(|| {
            let mut ex = Exec::new(&core, poll_cap(stream.len(), &c.read_script));
            let mut fut = Box::pin(C::header_decode_async(&mut rd));
            ex.run(fut.as_mut()).map(|r| r.is_ok())
        }));
        out.absorb_core(&core, trace);
        out.evals += 1;
        match r {
            Ok(Ok(_)) => {}
            Ok(Err(_)) => check("Header::decode_async", "Stuck", "poll cap exceeded".into(), &mut out),
            Err(m) => check("Header::decode_async", if m.contains("SIM-SPIN") { "Stuck" } else { "Panic" }, m, &mut out),
        }
    }
    {
        let core = Core::new(trace);
        let mut rd = SimReader::new(&core, stream.clone(), c.read_script.clone());
        rd.tail = c.read_tail;
        let r = guarded(std::panic::AssertUnwindSafe(|| {
            let mut ex = Exec::new(&core, poll_cap(stream.len(), &c.read_script));
            let mut fut = Box::pin(mqtt_proto::decode_raw_header(&mut rd));
            ex.run(fut.as_mut()).map(|r| r.is_ok())
        }));
        out.absorb_core(&core, trace);
        out.evals += 1;
        match r {
            Ok(Ok(_)) => {}
            Ok(Err(_)) => check("decode_raw_header", "Stuck", "poll cap exceeded".into(), &mut out),
            Err(m) => check("decode_raw_header", if m.contains("SIM-SPIN") { "Stuck" } else { "Panic" }, m, &mut out),
        }
    }
    match (&b, &pr.fe) {
        (Fe::Ok { .. }, _) | (_, Fe::Ok { .. }) => out.probe("accepted"),
        _ => out.probe("rejected"),
    }
    out
}
