//! C07 — every strict prefix of a valid encoding is "incomplete"; trailing bytes are ignored.
//! The crash is the peer closing the stream after k bytes; k is swept over the whole encoding.

use std::rc::Rc;

use crate::ast::*;
use crate::case::*;
use crate::dispatch;
use crate::fam::Codec;
use crate::fe::*;
use crate::gen;
use crate::refcodec::{self, Style};
use crate::rng::Rng;
use crate::scn::common::*;
use crate::scn::{Scenario, Tier};

pub fn scenarios() -> Vec<Scenario> {
    vec![Scenario {
        property: "C07",
        name: "c07-prefix",
        gen,
        run,
        quick_runs: 30_000,
        weight: 1,
        rule: "case = (valid packet, suffix, schedule), evaluated at every cut position (all for <= 2,048 bytes, field boundaries +-2 and 256 spread positions beyond); non-trivial when the encoding has >= 3 bytes; distinct by case hash",
    },
    Scenario {
        property: "C07",
        name: "c07-spelled",
        gen: gen_spelled,
        run: run_spelled,
        quick_runs: 20_000,
        weight: 1,
        rule: "case = valid packet in a legal non-canonical spelling (reason code / property length spelled out, shuffled properties) that the decoders accept; every strict prefix must be incomplete; non-trivial when the spelling differs from the encoder's own; distinct by case hash",
    }]
}

/// Valid encodings the library's own encoder never emits: MQTT 5 long forms and other property
/// orders. "Every valid packet encoding" in the property is not limited to the encoder's output.
pub fn gen_spelled(rng: &mut Rng, tier: Tier, idx: u64) -> Case {
    let mut c = gen(rng, tier, idx);
    c.scenario = "c07-spelled".into();
    c.style = Style {
        spell: rng.range(1, 2) as u8,
        shuffle: if rng.chance(1, 2) { rng.next_u64() | 1 } else { 0 },
        ..Style::default()
    };
    c.suffix = Bs(vec![]);
    c
}

pub fn run_spelled(c: &Case, trace: bool) -> RunOut {
    dispatch!(c.fam, run_spelled_g(c, trace))
}

fn run_spelled_g<C: Codec>(c: &Case, trace: bool) -> RunOut {
    let mut out = RunOut::default();
    let a = &c.packets[0];
    let ty = a.type_name();
    let f = if c.fam.is_v5() { "v5" } else { "v3" };
    let sig = |clause: &str| format!("C07:{f}:{ty}:spelled:{clause}");
    let enc = refcodec::ref_encode(a, c.fam, &c.style).bytes;
    let canon = refcodec::ref_encode(a, c.fam, &Style::default()).bytes;
    out.nontrivial = enc != canon;
    out.evals = 1;
    // it is a valid encoding by the reference grammar (a legal spelling of a valid packet); whether
    // the decoders accept the *whole* of it is C04's business, its strict prefixes are ours
    if refcodec::ref_decode(c.fam, &enc).is_err() {
        return out;
    }
    let whole = Rc::new(enc.clone());
    if fe_block::<C>(&whole).pkt().is_some() {
        out.probe("spelled-form-accepted");
    } else {
        out.probe("spelled-form-not-accepted");
    }
    let len = enc.len();
    let cuts: Vec<usize> = if len <= 2048 { (0..len).collect() } else { (0..64).chain(len - 64..len).collect() };
    for k in cuts {
        let pre = Rc::new(enc[..k].to_vec());
        let b = fe_block::<C>(&pre);
        out.evals += 1;
        if !matches!(b, Fe::Incomplete) {
            out.violate(
                sig(&format!("B:prefix={}", fe_class::<C>(&b))),
                format!("blocking decoder on the first {k} of {len} bytes of a valid (spelled-out) encoding returned {} instead of Ok(None)\n  packet: {a:?}\n  encoding: {:?}", fe_long::<C>(&b), Bs(enc.clone())),
            );
        }
        let ar = run_a::<C>(&pre, &c.read_script, c.read_tail, &[], trace, &mut out);
        let pr = run_p::<C>(&pre, &c.read_script, c.read_tail, &c.cancel, &[], false, trace, &mut out);
        for (name, fe) in [("A", &ar.fe), ("P", &pr.fe)] {
            let ok = matches!(fe, Fe::Err { e, .. } if C::norm(e).eof);
            if !ok {
                out.violate(
                    sig(&format!("{name}:prefix={}", fe_class::<C>(fe))),
                    format!("front-end {name}: stream closed after {k} of {len} bytes of a valid (spelled-out) encoding, result {} is not an error recognised by is_eof()\n  packet: {a:?}\n  encoding: {:?}", fe_long::<C>(fe), Bs(enc.clone())),
                );
            }
        }
        if out.violations.len() >= 3 {
            break;
        }
    }
    out
}

pub fn gen(rng: &mut Rng, tier: Tier, idx: u64) -> Case {
    let mut sw = gen::swarm(rng, tier == Tier::Thorough);
    let all = gen::all_types(sw.fam);
    if idx % 8 == 0 {
        sw.types = vec![all[(idx / 8) as usize % all.len()]];
    }
    if tier != Tier::Thorough {
        sw.max_frame = 16_384 + 16;
    }
    let mut c = Case::new("C07", "c07-prefix", sw.fam, Front::P);
    let mut a = gen::gen_packet(rng, &sw);
    maybe_retarget(rng, &sw, &mut a, 300);
    gen::maybe_retarget_props(rng, sw.fam, &mut a, 40);
    let len = refcodec::ref_body_len(&a, sw.fam) + 5;
    c.packets = vec![a];
    let n = rng.urange(0, 12);
    c.suffix = match rng.below(4) {
        0 => Bs(vec![]),
        1 => Bs(rng.bytes(n)),
        2 => Bs(vec![0xFF; n]),
        _ => Bs(vec![0x80; n]),
    };
    let pp = *rng.pick(&[0u64, 0, 200]);
    let (script, tail) = gen_read_script(rng, len, pp, &[]);
    let cp = *rng.pick(&[0u64, 500]);
    c.cancel = gen_cancel(rng, &script, cp);
    c.read_script = script;
    c.read_tail = tail;
    c.reader_style = rng.below(3) as u8;
    c
}

pub fn run(c: &Case, trace: bool) -> RunOut {
    dispatch!(c.fam, run_g(c, trace))
}

fn run_g<C: Codec>(c: &Case, trace: bool) -> RunOut {
    let mut out = RunOut::default();
    let a = &c.packets[0];
    let ty = a.type_name();
    let f = if c.fam.is_v5() { "v5" } else { "v3" };
    let sig = |clause: &str| format!("C07:{f}:{ty}:{clause}");
    let (p, enc) = match lib_encode::<C>(a) {
        Ok(x) => x,
        Err(_) => {
            // encoder failures are C01/C02's business; nothing to cut here
            out.evals = 1;
            return out;
        }
    };
    let len = enc.len();
    out.nontrivial = len >= 3;
    // sanity: the whole encoding must decode, otherwise "prefix" is meaningless (C01 reports it)
    if fe_block::<C>(&enc).pkt() != Some(&p) {
        out.evals = 1;
        return out;
    }
    let cuts: Vec<usize> = if len <= 2048 {
        (0..len).collect()
    } else {
        let mut v: Vec<usize> = (0..64).collect();
        v.extend(len - 64..len);
        let e = refcodec::ref_encode(a, c.fam, &Style::default());
        for b in span_bounds(&e.spans) {
            for d in b.saturating_sub(2)..=b + 2 {
                if d < len {
                    v.push(d);
                }
            }
        }
        let step = (len / 256).max(1);
        v.extend((0..len).step_by(step));
        v.sort_unstable();
        v.dedup();
        // long lists of long strings have thousands of field boundaries: every cut costs a copy of
        // the prefix, so large encodings get at most ~600 cut positions
        if v.len() > 600 {
            let stride = v.len() / 600 + 1;
            v = v.into_iter().step_by(stride).collect();
        }
        v
    };
    for k in cuts {
        let pre = Rc::new(enc[..k].to_vec());
        // blocking: Ok(None)
        let b = fe_block::<C>(&pre);
        out.evals += 1;
        if !matches!(b, Fe::Incomplete) {
            out.violate(
                sig(&format!("B:prefix={}", fe_class::<C>(&b))),
                format!("blocking decoder on the first {k} of {len} bytes returned {} instead of Ok(None)\n  packet: {a:?}", fe_long::<C>(&b)),
            );
        }
        // async and poll: the peer closes after k bytes
        let ar = run_a::<C>(&pre, &c.read_script, c.read_tail, &[], trace, &mut out);
        let pr = run_p::<C>(&pre, &c.read_script, c.read_tail, &c.cancel, &[], false, trace, &mut out);
        for (name, fe) in [("A", &ar.fe), ("P", &pr.fe)] {
            let ok = match fe {
                Fe::Err { e, .. } => C::norm(e).eof,
                _ => false,
            };
            if !ok {
                out.violate(
                    sig(&format!("{name}:prefix={}", fe_class::<C>(fe))),
                    format!(
                        "front-end {name}: stream closed after {k} of {len} bytes, result {} is not an error recognised by is_eof()\n  packet: {a:?}",
                        fe_long::<C>(fe)
                    ),
                );
            }
        }
        if out.violations.len() >= 3 {
            return out;
        }
    }
    // trailing bytes are ignored
    if !c.suffix.is_empty() {
        let mut s = enc.clone();
        s.extend_from_slice(&c.suffix.0);
        let s = Rc::new(s);
        let b = fe_block::<C>(&s);
        let ar = run_a::<C>(&s, &c.read_script, c.read_tail, &[], trace, &mut out);
        let pr = run_p::<C>(&s, &c.read_script, c.read_tail, &c.cancel, &[], false, trace, &mut out);
        for (name, fe) in [("B", &b), ("A", &ar.fe), ("P", &pr.fe)] {
            if fe.pkt() != Some(&p) {
                out.violate(
                    sig(&format!("{name}:suffix={}", fe_class::<C>(fe))),
                    format!("front-end {name}: encoding followed by {:?} decodes to {} instead of the packet", c.suffix, fe_long::<C>(fe)),
                );
            }
        }
    }
    out
}
