//! C20 — malformed input is classified with the documented error. For a valid packet, every
//! applicable catalogue malformation (at every site it applies to) is injected on the wire and
//! each front-end must return the error the catalogue predicts.

use std::rc::Rc;

use crate::ast::*;
use crate::case::*;
use crate::dispatch;
use crate::fam::Codec;
use crate::fe::*;
use crate::gen;
use crate::malform::{self, Expect};
use crate::rng::Rng;
use crate::scn::common::*;
use crate::scn::{Scenario, Tier};

pub fn scenarios() -> Vec<Scenario> {
    vec![Scenario {
        property: "C20",
        name: "c20-classify",
        gen,
        run,
        quick_runs: 200_000,
        weight: 1,
        rule: "case = valid packet; evaluated under every applicable catalogue malformation at every applicable site (sampled above 6 sites per kind) on B, A and P; non-trivial when >= 3 malformations applied; distinct by case hash",
    }]
}

pub fn gen(rng: &mut Rng, tier: Tier, idx: u64) -> Case {
    let mut sw = gen::swarm(rng, tier == Tier::Thorough);
    sw.big_permil = sw.big_permil.min(5);
    let all = gen::all_types(sw.fam);
    if idx % 4 == 0 {
        sw.types = vec![all[(idx / 4) as usize % all.len()]];
    }
    if sw.opt_p < 10 && rng.chance(1, 2) {
        sw.opt_p = 10;
    }
    let mut c = Case::new("C20", "c20-classify", sw.fam, Front::P);
    c.packets = vec![gen::gen_packet(rng, &sw)];
    let (script, tail) = gen_read_script(rng, 64, 100, &[]);
    c.read_script = script;
    c.read_tail = tail;
    c.reader_style = rng.below(3) as u8;
    c
}

pub fn run(c: &Case, trace: bool) -> RunOut {
    dispatch!(c.fam, run_g(c, trace))
}

fn run_g<C: Codec>(c: &Case, trace: bool) -> RunOut {
    let mut out = RunOut::default();
    let a = &c.packets[0];
    let ty = a.type_name();
    let f = if c.fam.is_v5() { "v5" } else { "v3" };
    let mals = malform::enumerate(a, c.fam);
    out.nontrivial = mals.len() >= 3;
    out.evals = 1;
    for m in mals {
        if m.expect == Expect::RefOnly {
            continue;
        }
        let stream = Rc::new(m.frame.clone());
        let b = fe_block::<C>(&stream);
        let ar = run_a::<C>(&stream, &c.read_script, c.read_tail, &[], trace, &mut out);
        let pr = run_p::<C>(&stream, &c.read_script, c.read_tail, &[], &[], false, trace, &mut out);
        out.probe(m.name);
        for (name, fe) in [("B", &b), ("A", &ar.fe), ("P", &pr.fe)] {
            let (ok, want) = match (&m.expect, name) {
                (Expect::All(t), _) => (matches!(fe, Fe::Err { e, .. } if C::norm(e).text == *t), t.clone()),
                (Expect::RefOnly, _) => (true, String::new()),
                (Expect::Crossing, "B") => (matches!(fe, Fe::Incomplete), "Ok(None)".to_string()),
                (Expect::Crossing, "A") => (matches!(fe, Fe::Err { e, .. } if C::norm(e).eof), "an error recognised by is_eof()".to_string()),
                (Expect::Crossing, _) => (
                    matches!(fe, Fe::Err { e, .. } if C::norm(e).text == "InvalidRemainingLength"),
                    "InvalidRemainingLength".to_string(),
                ),
            };
            if !ok {
                let got = match fe {
                    Fe::Err { e, .. } => C::norm(e).text.split('(').next().unwrap_or("").to_string(),
                    other => other.kind().to_string(),
                };
                out.violate(
                    format!("C20:{f}:{ty}:{}:{name}:got={got}", m.name),
                    format!(
                        "malformation '{}' ({}) on front-end {name}: expected {want}, got {}\n  valid packet: {a:?}\n  frame on the wire: {:?}",
                        m.name,
                        m.site,
                        fe_long::<C>(fe),
                        Bs(m.frame.clone())
                    ),
                );
            }
        }
        if out.violations.len() >= 6 {
            break;
        }
    }
    out
}
