//! Helpers shared by the scenarios.

use std::rc::Rc;

use mqtt_proto::GenericPollPacketState;

use crate::ast::*;
use crate::case::*;
use crate::fam::Codec;
use crate::fe::*;
use crate::gen::{self, Swarm};
use crate::refcodec::{self, Span, SK};
use crate::rng::Rng;
use crate::sim::*;
use crate::spec;

#[macro_export]
macro_rules! dispatch {
    ($fam:expr, $f:ident ( $($a:expr),* )) => {
        match $fam {
            $crate::ast::Fam::V5 => $f::<$crate::fam::V5>($($a),*),
            _ => $f::<$crate::fam::V3>($($a),*),
        }
    };
}

/// Encode an AST with the real encoder (the "sender node"). Err carries a violation text.
pub fn lib_encode<C: Codec>(a: &Ast) -> Result<(C::Packet, Vec<u8>), String> {
    let p = match guarded(|| C::from_ast(a)) {
        Ok(Some(p)) => p,
        Ok(None) => return Err(format!("bridge: the library's constructors reject a reference-valid value: {a:?}")),
        Err(m) => return Err(format!("bridge: a constructor of the library panicked on a reference-valid value: {m}\n  value: {a:?}")),
    };
    match guarded(|| C::encode(&p)) {
        Ok(Ok(vb)) => {
            let v: Vec<u8> = vb.as_ref().to_vec();
            Ok((p, v))
        }
        Ok(Err(e)) => Err(format!("encode returned Err({e:?})")),
        Err(m) => Err(format!("encode panicked: {m}")),
    }
}

/// One or more valid packets of one family.
pub fn gen_valid(rng: &mut Rng, sw: &Swarm, n: usize) -> Vec<Ast> {
    (0..n).map(|_| gen::gen_packet(rng, sw)).collect()
}

/// With probability 1/`one_in`, pad the packet so its remaining length hits a width boundary.
pub fn maybe_retarget(rng: &mut Rng, sw: &Swarm, a: &mut Ast, one_in: u64) {
    if !rng.chance(1, one_in) {
        return;
    }
    let cur = refcodec::ref_body_len(a, sw.fam);
    let cands: Vec<usize> = gen::FRAME_TARGETS.iter().copied().filter(|t| *t <= sw.max_frame).collect();
    if cands.is_empty() {
        return;
    }
    let mut t = *rng.pick(&cands);
    if sw.max_frame >= 2_097_152 && rng.chance(1, 60) {
        // a size that is not a boundary of the wire format at all: 2 MiB .. 40 MiB
        t = rng.urange(2_097_153, 40_000_000);
    }
    gen::retarget(rng, a, cur, t);
}

pub fn span_bounds(spans: &[Span]) -> Vec<usize> {
    let mut b: Vec<usize> = Vec::new();
    for s in spans {
        b.push(s.off);
        b.push(s.off + s.len);
    }
    b.sort_unstable();
    b.dedup();
    b
}

pub fn find_spans(spans: &[Span], kind: SK) -> Vec<Span> {
    spans.iter().copied().filter(|s| s.kind == kind).collect()
}

/// Random wire corruption aimed at the stream (fault kind F11).
pub fn gen_mutations(rng: &mut Rng, len: usize, bounds: &[usize], n: usize) -> Vec<Mutation> {
    let mut v = Vec::new();
    for _ in 0..n {
        let pos = if !bounds.is_empty() && rng.chance(2, 3) {
            let b = *rng.pick(bounds);
            (b + rng.usize_below(3)).saturating_sub(1)
        } else {
            rng.usize_below(len.max(1))
        };
        let m = match rng.below(12) {
            0..=2 => Mutation::Flip { pos, bit: rng.below(8) as u8 },
            3 | 4 => Mutation::Set { pos, val: *rng.pick(&[0u8, 1, 2, 3, 0x7f, 0x80, 0xff, 0x26, 0x0b]) },
            5 => Mutation::Set { pos, val: rng.u8() },
            6 => Mutation::Truncate { len: pos },
            7 => {
                let n = rng.urange(1, 8);
                Mutation::Extend(Bs(rng.bytes(n)))
            }
            8 => {
                let n = rng.urange(1, 4);
                Mutation::Insert { pos, bytes: Bs(rng.bytes(n)) }
            }
            9 => Mutation::Delete { pos, len: rng.urange(1, 4) },
            10 => Mutation::Dup { pos, len: rng.urange(1, 12) },
            _ => {
                let b = match rng.below(6) {
                    0 => vec![0],
                    1 => vec![0xff, 0xff, 0xff, 0x7f],
                    2 => vec![0xff, 0xff, 0xff, 0xff, 0x7f],
                    3 => spec::varint((len as u32).saturating_sub(rng.range(0, 4) as u32)),
                    4 => spec::varint(len as u32 + rng.range(0, 4) as u32),
                    _ => spec::varint_padded(len.saturating_sub(2) as u32 % 100, rng.urange(2, 4)),
                };
                Mutation::RemLen(Bs(b))
            }
        };
        v.push(m);
    }
    v
}

pub struct PRun<C: Codec> {
    pub fe: Fe<C::Packet, C::Err>,
    pub offers: Vec<(usize, usize)>,
    pub sim_violations: Vec<String>,
    /// (bytes delivered so far, is_header_state, body idx) at every Pending
    pub states: Vec<(usize, bool, usize)>,
    pub final_pos: usize,
}

/// Run the poll front-end once over `stream` with the given schedule.
#[allow(clippy::too_many_arguments)]
pub fn run_p<C: Codec>(
    stream: &Rc<Vec<u8>>,
    script: &[ReadEv],
    tail: usize,
    cancel: &[bool],
    faults: &[(usize, u8)],
    observe: bool,
    trace: bool,
    out: &mut RunOut,
) -> PRun<C> {
    let core = Core::new(trace);
    let mut rd = SimReader::new(&core, stream.clone(), script.to_vec()).with_faults(faults);
    rd.tail = tail;
    rd.record_offers = true;
    let mut st = GenericPollPacketState::<C::Header>::default();
    let mut states: Vec<(usize, bool, usize)> = Vec::new();
    let cap = poll_cap(stream.len(), script);
    let fe = if observe {
        let mut obs = |s: &GenericPollPacketState<C::Header>, pos: usize| match s {
            GenericPollPacketState::Header(_) => states.push((pos, true, 0)),
            GenericPollPacketState::Body(b) => states.push((pos, false, b.idx)),
        };
        fe_poll::<C>(&core, &mut st, &mut rd, cancel, cap, Some(&mut obs))
    } else {
        fe_poll::<C>(&core, &mut st, &mut rd, cancel, cap, None)
    };
    out.absorb_core(&core, trace);
    out.evals += 1;
    out.mix(fe_brief::<C>(&fe).as_bytes());
    let sim_violations = core.borrow().sim_violations.clone();
    PRun { fe, offers: std::mem::take(&mut rd.offers), sim_violations, states, final_pos: rd.pos }
}

pub struct ARun<C: Codec> {
    pub fe: Fe<C::Packet, C::Err>,
    pub sim_violations: Vec<String>,
    pub final_pos: usize,
}

pub fn run_a<C: Codec>(
    stream: &Rc<Vec<u8>>,
    script: &[ReadEv],
    tail: usize,
    faults: &[(usize, u8)],
    trace: bool,
    out: &mut RunOut,
) -> ARun<C> {
    let core = Core::new(trace);
    let mut rd = SimReader::new(&core, stream.clone(), script.to_vec()).with_faults(faults);
    rd.tail = tail;
    let cap = poll_cap(stream.len(), script);
    let fe = fe_async::<C>(&core, &mut rd, cap);
    out.absorb_core(&core, trace);
    out.evals += 1;
    out.mix(fe_brief::<C>(&fe).as_bytes());
    let sim_violations = core.borrow().sim_violations.clone();
    ARun { fe, sim_violations, final_pos: rd.pos }
}

pub fn fe_brief<C: Codec>(fe: &Fe<C::Packet, C::Err>) -> String {
    match fe {
        Fe::Ok { pkt, consumed, total, body } => format!(
            "Ok(type={}, consumed={:?}, total={:?}, body_len={:?})",
            C::to_ast(pkt).type_name(),
            consumed,
            total,
            body.as_ref().map(|b| b.len())
        ),
        Fe::Incomplete => "Incomplete".into(),
        Fe::Err { e, consumed } => format!("Err({:?}, consumed={:?})", C::norm(e).text, consumed),
        Fe::Panic(m) => format!("Panic({m})"),
        Fe::Stuck(m) => format!("Stuck({m})"),
    }
}

pub fn fe_long<C: Codec>(fe: &Fe<C::Packet, C::Err>) -> String {
    let s = match fe {
        Fe::Ok { pkt, consumed, total, body } => format!(
            "Ok(pkt={}, consumed={:?}, total={:?}, body={:?})",
            safe_debug(pkt),
            consumed,
            total,
            body.as_ref().map(|b| crate::ast::Bs(b.clone()))
        ),
        Fe::Err { e, consumed } => format!("Err({e:?}, consumed={consumed:?})"),
        other => fe_brief::<C>(other),
    };
    if s.len() > 1500 {
        format!("{}…({} chars)", &s[..s.char_indices().nth(1200).map(|x| x.0).unwrap_or(s.len())], s.len())
    } else {
        s
    }
}

/// Short class of an outcome for signatures.
pub fn fe_class<C: Codec>(fe: &Fe<C::Packet, C::Err>) -> String {
    match fe {
        Fe::Ok { .. } => "Ok".into(),
        Fe::Incomplete => "Incomplete".into(),
        Fe::Err { e, .. } => {
            let t = C::norm(e).text;
            // variant name only
            t.split('(').next().unwrap_or("Err").to_string()
        }
        Fe::Panic(_) => "Panic".into(),
        Fe::Stuck(_) => "Stuck".into(),
    }
}

pub fn type_of_stream(s: &[u8]) -> &'static str {
    s.first().map_or("EMPTY", |b| crate::ast::type_name(b >> 4))
}

// ---------------------------------------------------------------------------------------------
// Hostile peer: byte streams for C03 / C06 / C11 / C12

/// `accept_bias` (0..=100): how strongly the generator favours streams a decoder will accept
/// (valid packets in legal or lenient spellings) over damaged ones.
pub fn hostile_case(rng: &mut Rng, tier: crate::scn::Tier, idx: u64, prop: &str, scn: &str, accept_bias: u64) -> Case {
    use crate::refcodec::Style;
    let thorough = tier == crate::scn::Tier::Thorough;
    let mut sw = gen::swarm(rng, thorough);
    let all = gen::all_types(sw.fam);
    if idx % 8 == 0 {
        sw.types = vec![all[(idx / 8) as usize % all.len()]];
    }
    let mut c = Case::new(prop, scn, sw.fam, Front::P);
    let mode = if rng.below(100) < accept_bias { 0 } else { 1 + rng.below(3) };
    match mode {
        0 | 1 => {
            // valid traffic in canonical or non-canonical spelling; mode 1 adds corruption
            let n = if rng.chance(1, 6) { 2 } else { 1 };
            for _ in 0..n {
                let mut a = gen::gen_packet(rng, &sw);
                maybe_retarget(rng, &sw, &mut a, 100);
                gen::maybe_retarget_props(rng, sw.fam, &mut a, 40);
                c.packets.push(a);
            }
            c.style = Style {
                spell: rng.below(3) as u8,
                shuffle: if rng.chance(1, 2) { rng.next_u64() | 1 } else { 0 },
                rl_width: if rng.chance(1, 4) { rng.urange(2, 4) as u8 } else { 0 },
                plen_width: if rng.chance(1, 6) { rng.urange(2, 4) as u8 } else { 0 },
                stray_will_retain: rng.chance(1, 8),
                pvar_width: if rng.chance(1, 6) { rng.urange(2, 4) as u8 } else { 0 },
            };
            if mode == 1 {
                let e = refcodec::ref_encode(&c.packets[0], sw.fam, &c.style);
                if rng.chance(1, 5) {
                    // two aimed malformations of the same packet at once
                    if let Some(f) = crate::malform::pair(&c.packets[0], sw.fam, rng.next_u64()) {
                        c.stream = Bs(f);
                        c.packets.clear();
                        c.style = Style::default();
                    }
                } else if rng.chance(1, 4) {
                    // one aimed malformation (F12) plus byte-level corruption on top: two faults
                    let mals = crate::malform::enumerate(&c.packets[0], sw.fam);
                    if !mals.is_empty() {
                        let m = &mals[rng.usize_below(mals.len())];
                        c.stream = Bs(m.frame.clone());
                        c.packets.clear();
                        c.style = Style::default();
                    }
                }
                let n = if c.packets.is_empty() { rng.urange(0, 2) } else { rng.urange(1, 4) };
                c.mutations = gen_mutations(rng, e.bytes.len(), &span_bounds(&e.spans), n);
            }
        }
        2 => {
            // plausible header + random body
            let t = *rng.pick(&all);
            let flags = if rng.chance(3, 4) { spec::fixed_flags(t, sw.fam.is_v5()).unwrap_or(rng.below(16) as u8) } else { rng.below(16) as u8 };
            let n = if rng.chance(1, 8) { rng.urange(100, 400) } else { rng.urange(0, 24) };
            let body = rng.bytes(n);
            let declared = match rng.below(4) {
                0 => n.saturating_sub(rng.urange(0, 3)),
                1 => n + rng.urange(0, 3),
                _ => n,
            };
            let mut s = vec![(t << 4) | flags];
            s.extend_from_slice(&spec::varint(declared as u32));
            s.extend_from_slice(&body);
            c.stream = Bs(s);
        }
        _ => {
            // maximal / huge declared lengths over short bodies
            let (t, flags) = if rng.chance(1, 3) {
                // any control byte at all, so that two header faults can coincide
                (rng.below(16) as u8, rng.below(16) as u8)
            } else {
                let t = *rng.pick(&all);
                (t, spec::fixed_flags(t, sw.fam.is_v5()).unwrap_or(0))
            };
            let mut s = vec![(t << 4) | flags];
            let decl: &[u8] = match rng.below(5) {
                0 => &[0xFF, 0xFF, 0xFF, 0x7F],
                1 => &[0xFF, 0xFF, 0x7F],
                2 => &[0x80, 0x80, 0x80, 0x01],
                3 => &[0xFF, 0xFF, 0xFF, 0xFF, 0x7F],
                _ => &[0xFF, 0x7F],
            };
            s.extend_from_slice(decl);
            let n = rng.urange(0, 40);
            // bodies that start like a real one, so inner length fields are reached
            let mut body = rng.bytes(n);
            if n >= 4 && rng.chance(1, 2) {
                body[0] = 0xFF;
                body[1] = 0xFF;
            }
            s.extend_from_slice(&body);
            c.stream = Bs(s);
        }
    }
    if rng.chance(1, 3) {
        let n = rng.urange(1, 12);
        c.suffix = Bs(rng.bytes(n));
    }
    let approx = 64;
    let pp = *rng.pick(&[0u64, 0, 100, 300]);
    let (script, tail) = gen_read_script(rng, approx, pp, &[]);
    let cp = *rng.pick(&[0u64, 500]);
    c.cancel = gen_cancel(rng, &script, cp);
    c.read_script = script;
    c.read_tail = tail;
    c.reader_style = rng.below(3) as u8;
    c
}

pub fn hostile_stream(c: &Case) -> Vec<u8> {
    let mut s = if c.packets.is_empty() {
        c.stream.0.clone()
    } else {
        let mut v = Vec::new();
        for p in &c.packets {
            v.extend_from_slice(&refcodec::ref_encode(p, c.fam, &c.style).bytes);
        }
        v
    };
    apply_mutations(&mut s, &c.mutations);
    s.extend_from_slice(&c.suffix.0);
    if let Some(k) = c.cut {
        s.truncate(k);
    }
    s
}


/// Bounded-exhaustive family of tiny frames, enumerated by index: every control byte with a
/// valid type/flag nibble (plus a few invalid ones) x remaining length 0..=5 x body bytes over a
/// small alphabet {00, 01, 02, 03, 10, 80, FF}. 7^5 bodies per (type, length) at most.
pub fn small_frame(fam: Fam, k: u64) -> Vec<u8> {
    const ALPHA: [u8; 7] = [0x00, 0x01, 0x02, 0x03, 0x10, 0x80, 0xFF];
    let types = gen::all_types(fam);
    let t = types[(k % types.len() as u64) as usize];
    let mut k = k / types.len() as u64;
    let flags = spec::fixed_flags(t, fam.is_v5()).unwrap_or((k % 16) as u8);
    let rl = (k % 6) as usize;
    k /= 6;
    let mut f = vec![(t << 4) | flags, rl as u8];
    for _ in 0..rl {
        f.push(ALPHA[(k % 7) as usize]);
        k /= 7;
    }
    f
}

/// Minimal join of two futures: both are polled on every wake-up until each has finished.
pub struct Join2<'a, T> {
    pub a: std::pin::Pin<Box<dyn std::future::Future<Output = T> + 'a>>,
    pub b: std::pin::Pin<Box<dyn std::future::Future<Output = T> + 'a>>,
    pub ra: Option<T>,
    pub rb: Option<T>,
}

impl<T: Unpin> std::future::Future for Join2<'_, T> {
    type Output = (T, T);
    fn poll(self: std::pin::Pin<&mut Self>, cx: &mut std::task::Context<'_>) -> std::task::Poll<(T, T)> {
        let this = self.get_mut();
        if this.ra.is_none() {
            if let std::task::Poll::Ready(x) = this.a.as_mut().poll(cx) {
                this.ra = Some(x);
            }
        }
        if this.rb.is_none() {
            if let std::task::Poll::Ready(x) = this.b.as_mut().poll(cx) {
                this.rb = Some(x);
            }
        }
        if this.ra.is_some() && this.rb.is_some() {
            std::task::Poll::Ready((this.ra.take().unwrap(), this.rb.take().unwrap()))
        } else {
            std::task::Poll::Pending
        }
    }
}

