//! C06 — blocking, async and poll decoders agree with each other on the same bytes.

use std::rc::Rc;

use crate::ast::Bs;
use crate::case::*;
use crate::dispatch;
use crate::fam::Codec;
use crate::fe::*;
use crate::rng::Rng;
use crate::scn::common::*;
use crate::scn::{Scenario, Tier};
use crate::sim::*;

pub fn scenarios() -> Vec<Scenario> {
    vec![Scenario {
        property: "C06",
        name: "c06-agree",
        gen,
        run,
        quick_runs: 1_200_000,
        weight: 1,
        rule: "case = (byte string: valid / non-canonical / corrupted / random, schedule for the async side); non-trivial when the stream has >= 2 bytes; distinct by case hash",
    }]
}

pub fn gen(rng: &mut Rng, tier: Tier, idx: u64) -> Case {
    if idx % 4 == 3 {
        // enumerated fixed headers: every control byte x a set of remaining-length spellings
        // (valid, zero, non-minimal, maximal, over-long), followed by a few random bytes
        let fam = crate::gen::pick_fam(rng);
        let mut c = Case::new("C06", "c06-agree", fam, Front::P);
        let k = idx / 4;
        let control = (k % 256) as u8;
        let lens: [&[u8]; 8] = [&[0x00], &[0x02], &[0x7f], &[0x80, 0x00], &[0x82, 0x80, 0x00], &[0xff, 0xff, 0xff, 0x7f], &[0x80, 0x80, 0x80, 0x80, 0x01], &[0xff, 0xff, 0xff, 0xff, 0x7f]];
        let mut s = vec![control];
        s.extend_from_slice(lens[((k / 256) % 8) as usize]);
        let n = rng.urange(0, 8);
        s.extend_from_slice(&rng.bytes(n));
        c.stream = Bs(s);
        let (script, tail) = gen_read_script(rng, 16, 100, &[]);
        c.cancel = gen_cancel(rng, &script, 500);
        c.read_script = script;
        c.read_tail = tail;
        c.reader_style = rng.below(3) as u8;
        return c;
    }
    if idx % 4 == 1 {
        // bounded-exhaustive tiny frames (see common::small_frame), optionally followed by bytes
        let fam = crate::gen::pick_fam(rng);
        let mut c = Case::new("C06", "c06-agree", fam, Front::P);
        c.stream = Bs(small_frame(fam, idx / 4));
        if rng.chance(1, 3) {
            let n = rng.urange(1, 4);
            c.suffix = Bs(rng.bytes(n));
        }
        let (script, tail) = gen_read_script(rng, 8, 100, &[]);
        c.cancel = gen_cancel(rng, &script, 500);
        c.read_script = script;
        c.read_tail = tail;
        c.reader_style = rng.below(3) as u8;
        return c;
    }
    let mut c = hostile_case(rng, tier, idx, "C06", "c06-agree", 40);
    // n[0]: byte position of one empty read (a read that completes without data although the
    // stream goes on), or -1
    c.n = vec![if rng.chance(1, 4) { rng.urange(0, 24) as i64 } else { -1 }];
    c
}

pub fn run(c: &Case, trace: bool) -> RunOut {
    dispatch!(c.fam, run_g(c, trace))
}

fn run_g<C: Codec>(c: &Case, trace: bool) -> RunOut {
    let mut out = RunOut::default();
    let f = if c.fam.is_v5() { "v5" } else { "v3" };
    let stream = Rc::new(hostile_stream(c));
    out.nontrivial = stream.len() >= 2;
    let ty = type_of_stream(&stream);
    let sig = |clause: String| format!("C06:{f}:{ty}:{clause}");
    let b = fe_block::<C>(&stream);
    out.evals += 1;
    let ar = run_a::<C>(&stream, &c.read_script, c.read_tail, &[], trace, &mut out);
    // the poll decoder gets the same delivery schedule as the async one, with the future dropped
    // and re-created where the cancel script says so: the comparison must not depend on it
    let pr = run_p::<C>(&stream, &c.read_script, c.read_tail, &c.cancel, &[], false, trace, &mut out);
    // one empty read inside a frame that all front-ends accept: A and P must both take it for the
    // end of the stream
    if let (Some(&k), Fe::Ok { total: Some(t), .. }, Fe::Ok { .. }) = (c.n.first(), &pr.fe, &ar.fe) {
        if k >= 0 && (k as usize) < *t {
            let faults = [(k as usize, EMPTY_READ)];
            let ae = run_a::<C>(&stream, &c.read_script, c.read_tail, &faults, trace, &mut out);
            let pe = run_p::<C>(&stream, &c.read_script, c.read_tail, &c.cancel, &faults, false, trace, &mut out);
            out.probe("empty-read-inside-frame");
            for (name, fe) in [("A", &ae.fe), ("P", &pe.fe)] {
                if !matches!(fe, Fe::Err { e, .. } if C::norm(e).eof) {
                    out.violate(
                        format!("C06:{f}:{ty}:empty-read:{name}={}", fe_class::<C>(fe)),
                        format!(
                            "an empty read at byte {k} of a {t}-byte frame: front-end {name} returns {} where the others report end of input\n  async: {}\n  poll:  {}",
                            fe_long::<C>(fe),
                            fe_long::<C>(&ae.fe),
                            fe_long::<C>(&pe.fe)
                        ),
                    );
                }
            }
        }
    }
    let show = |b: &Fe<C::Packet, C::Err>, a: &Fe<C::Packet, C::Err>, p: &Fe<C::Packet, C::Err>| {
        format!(
            "  blocking: {}\n  async:    {}\n  poll:     {}\n  bytes: {:?}",
            fe_long::<C>(b),
            fe_long::<C>(a),
            fe_long::<C>(p),
            Bs(stream.to_vec())
        )
    };
    // blocking == async with EOF mapped to incomplete
    let b_eq_a = match (&b, &ar.fe) {
        (Fe::Ok { pkt: x, .. }, Fe::Ok { pkt: y, .. }) => x == y,
        (Fe::Incomplete, Fe::Err { e, .. }) => C::norm(e).eof,
        (Fe::Err { e: x, .. }, Fe::Err { e: y, .. }) => !C::norm(y).eof && C::norm(x).text == C::norm(y).text,
        _ => false,
    };
    if !b_eq_a {
        out.violate(
            sig(format!("B!=A:{}vs{}", fe_class::<C>(&b), fe_class::<C>(&ar.fe))),
            format!("blocking decoder is not the async decoder with end-of-input mapped to incomplete\n{}", show(&b, &ar.fe, &pr.fe)),
        );
    }
    // whether the stream starts with a complete frame
    let complete = matches!(crate::spec::ref_frame(&stream), Ok((h, rl)) if h + rl <= stream.len());
    if complete {
        match &pr.fe {
            Fe::Ok { pkt, .. } => {
                out.probe("poll-accepts");
                for (name, fe) in [("B", &b), ("A", &ar.fe)] {
                    if fe.pkt() != Some(pkt) {
                        out.violate(
                            sig(format!("P=Ok:{name}={}", fe_class::<C>(fe))),
                            format!("the poll decoder accepts, front-end {name} does not return the same packet\n{}", show(&b, &ar.fe, &pr.fe)),
                        );
                    }
                }
            }
            Fe::Err { e, .. } => {
                let n = C::norm(e);
                if n.text != "InvalidRemainingLength" {
                    out.probe("poll-rejects-specific");
                    for (name, fe) in [("B", &b), ("A", &ar.fe)] {
                        let same = matches!(fe, Fe::Err { e: x, .. } if C::norm(x).text == n.text);
                        if !same {
                            out.violate(
                                sig(format!("P={}:{name}={}", fe_class::<C>(&pr.fe), fe_class::<C>(fe))),
                                format!("the poll decoder rejects with {}, front-end {name} does not return that error\n{}", n.text, show(&b, &ar.fe, &pr.fe)),
                            );
                        }
                    }
                } else {
                    out.probe("poll-rejects-length");
                }
            }
            _ => {}
        }
    }
    // bare fixed headers: blocking == async
    {
        let hb = guarded(|| C::header_decode(&stream));
        let core = Core::new(trace);
        let mut rd = SimReader::new(&core, stream.clone(), c.read_script.clone());
        rd.tail = c.read_tail;
        let ha = guarded(std::panic::AssertUnwindSafe(|| {
            let mut ex = Exec::new(&core, poll_cap(stream.len(), &c.read_script));
            let mut fut = Box::pin(C::header_decode_async(&mut rd));
            ex.run(fut.as_mut())
        }));
        out.absorb_core(&core, trace);
        out.evals += 1;
        let same = match (&hb, &ha) {
            (Ok(Ok(x)), Ok(Ok(Ok(y)))) => x == y,
            (Ok(Err(x)), Ok(Ok(Err(y)))) => C::norm(x).text == C::norm(y).text,
            _ => false,
        };
        if !same {
            out.violate(
                sig("header:B!=A".to_string()),
                format!("Header::decode and Header::decode_async disagree on {:?}\n  blocking: {hb:?}\n  async: {ha:?}", Bs(stream[..stream.len().min(8)].to_vec())),
            );
        }
    }
    out
}
