//! Scenarios: one module per property. Each exposes `gen(rng, tier) -> Case` and
//! `run(&Case, trace) -> RunOut`.

pub mod common;
pub mod c01;
pub mod c02;
pub mod c03;
pub mod c04;
pub mod c05;
pub mod c06;
pub mod c07;
pub mod c08;
pub mod c09;
pub mod c10;
pub mod c11;
pub mod c12;
pub mod c13;
pub mod c14;
pub mod c20;

use crate::case::{Case, RunOut};
use crate::rng::Rng;

#[derive(Clone, Copy, Debug, PartialEq, Eq)]
pub enum Tier {
    Quick,
    Thorough,
}

pub struct Scenario {
    pub property: &'static str,
    pub name: &'static str,
    pub gen: fn(&mut Rng, Tier, u64) -> Case,
    pub run: fn(&Case, bool) -> RunOut,
    /// runs in the quick tier; thorough runs until the time budget is used
    pub quick_runs: u64,
    /// share of the thorough budget (weights are normalised per property)
    pub weight: u32,
    pub rule: &'static str,
}

pub fn all() -> Vec<Scenario> {
    let mut v = Vec::new();
    v.extend(c01::scenarios());
    v.extend(c02::scenarios());
    v.extend(c03::scenarios());
    v.extend(c04::scenarios());
    v.extend(c05::scenarios());
    v.extend(c06::scenarios());
    v.extend(c07::scenarios());
    v.extend(c08::scenarios());
    v.extend(c09::scenarios());
    v.extend(c10::scenarios());
    v.extend(c11::scenarios());
    v.extend(c12::scenarios());
    v.extend(c13::scenarios());
    v.extend(c14::scenarios());
    v.extend(c20::scenarios());
    v
}
