//! C12 — every decoded packet satisfies the invariants its types promise. An invariant monitor
//! walks each packet any front-end returns for hostile input aimed at strings, topics,
//! identifiers and variable byte integers.

use std::rc::Rc;

use crate::ast::Bs;
use crate::case::*;
use crate::dispatch;
use crate::fam::Codec;
use crate::fe::*;
use crate::refcodec::{self, SK};
use crate::rng::Rng;
use crate::scn::common::*;
use crate::scn::{Scenario, Tier};

pub fn scenarios() -> Vec<Scenario> {
    vec![Scenario {
        property: "C12",
        name: "c12-invariants",
        gen,
        run,
        quick_runs: 1_500_000,
        weight: 1,
        rule: "case = byte string (valid traffic with corruptions aimed at string / topic / identifier / integer fields); non-trivial when at least one front-end accepts and the input is not a plain canonical encoding; distinct by case hash",
    }]
}

pub fn gen(rng: &mut Rng, tier: Tier, idx: u64) -> Case {
    let mut c = hostile_case(rng, tier, idx, "C12", "c12-invariants", 50);
    // a will payload flagged as UTF-8 that is cut inside a character at the maximum length (and at
    // a few other lengths), as a client truncating an over-long will message would produce
    if let Some(crate::ast::Ast::Connect(cn)) = c.packets.first_mut() {
        if let Some(w) = cn.will.as_mut() {
            let flagged = w.props.iter().any(|(id, v)| *id == 0x01 && *v == crate::ast::PVal::Byte(1));
            if flagged && rng.chance(1, 3) && !crate::gen::tiny() {
                let n = *rng.pick(&[65_535usize, 65_534, 1024, 300]);
                let mut pl = vec![b'w'; n];
                let tail: &[u8] = if rng.bool() { &[0xE4, 0xBD] } else { &[0xF0] };
                pl[n - tail.len()..].copy_from_slice(tail);
                w.payload = Bs(pl);
                c.mutations.clear();
            }
        }
    }
    // the boundary between two adjacent strings moved into the middle of a code point
    if !c.packets.is_empty() && rng.chance(1, 5) {
        let mut a = c.packets[0].clone();
        if crate::gen::split_codepoint(&mut a) {
            c.packets[0] = a;
            c.mutations.clear();
        }
    }
    // aim extra corruptions at the fields the invariants talk about
    if !c.packets.is_empty() && rng.chance(2, 3) {
        let e = refcodec::ref_encode(&c.packets[0], c.fam, &c.style);
        let targets: Vec<_> = e
            .spans
            .iter()
            .filter(|s| matches!(s.kind, SK::StrBody | SK::TopicName | SK::Filter | SK::ResponseTopic | SK::Pid | SK::PropVar | SK::Payload | SK::BinBody | SK::PropByte) && s.len > 0)
            .collect();
        // large payloads: a lead byte just before / a continuation byte just after a 64 KiB boundary
        if let Some(pl) = e.spans.iter().find(|s| s.kind == SK::Payload && s.len > 65_536) {
            if rng.chance(1, 2) {
                let k = 65_536 * rng.urange(1, pl.len / 65_536);
                if k < pl.len {
                    let (pos, val) = if rng.bool() { (pl.off + k - 1, 0xC3) } else { (pl.off + k, 0xA9) };
                    c.mutations.push(Mutation::Set { pos, val });
                }
            }
        }
        if !targets.is_empty() {
            let n = rng.urange(1, 2);
            for _ in 0..n {
                let s = targets[rng.usize_below(targets.len())];
                let pos = s.off + rng.usize_below(s.len);
                let val = *rng.pick(&[0u8, b'+', b'#', b'/', 0x80, 0xC0, 0xFF, 0xED, 0xF4, 0x7F, b'$']);
                c.mutations.push(Mutation::Set { pos, val });
            }
        }
    }
    c
}

pub fn run(c: &Case, trace: bool) -> RunOut {
    dispatch!(c.fam, run_g(c, trace))
}

fn run_g<C: Codec>(c: &Case, trace: bool) -> RunOut {
    let mut out = RunOut::default();
    let f = if c.fam.is_v5() { "v5" } else { "v3" };
    let stream = Rc::new(hostile_stream(c));
    let ty = type_of_stream(&stream);
    if stream.len() > 65_536 && c.mutations.iter().any(|m| matches!(m, Mutation::Set { val: 0xC3 | 0xA9, pos } if *pos >= 65_000)) {
        out.probe("payload-64k-boundary-corrupted");
    }
    let b = fe_block::<C>(&stream);
    out.evals += 1;
    let ar = run_a::<C>(&stream, &c.read_script, c.read_tail, &[], trace, &mut out);
    let pr = run_p::<C>(&stream, &c.read_script, c.read_tail, &c.cancel, &[], false, trace, &mut out);
    for (name, fe) in [("B", &b), ("A", &ar.fe), ("P", &pr.fe)] {
        let Fe::Ok { pkt, .. } = fe else { continue };
        out.probe("accepted");
        if !c.mutations.is_empty() {
            out.probe("accepted-after-corruption");
            out.nontrivial = true;
        }
        if c.style != Default::default() {
            out.nontrivial = true;
        }
        match guarded(|| C::invariants(pkt)) {
            Ok(v) => {
                for msg in v {
                    let clause = msg.split(':').next().unwrap_or("invariant").replace(' ', "-");
                    out.violate(
                        format!("C12:{f}:{ty}:{name}:{clause}"),
                        format!("packet returned by front-end {name} breaks a type invariant: {msg}\n  input: {:?}\n  packet: {}", Bs(stream[..stream.len().min(200)].to_vec()), safe_debug(pkt)),
                    );
                }
            }
            Err(m) => out.violate(
                format!("C12:{f}:{ty}:{name}:accessor-panic"),
                format!("an accessor of a decoded packet panicked: {m}\n  input: {:?}\n  packet: {}", Bs(stream[..stream.len().min(200)].to_vec()), safe_debug(pkt)),
            ),
        }
    }
    out
}
