//! C13 — a CONNECT of the other protocol family is identified, not misparsed: version
//! dispatcher node. n[0]: decoder family (0 = v3 codec, 1 = v5 codec); n[1]: protocol level
//! override (-1 = none); n[2]: protocol-name corruption (0 none, 1 ASCII change, 2 non-UTF-8,
//! >= 3 a name of another length, 0..=12 bytes).

use std::panic::AssertUnwindSafe;
use std::rc::Rc;

use mqtt_proto::{v3, v5, Protocol};

use crate::ast::*;
use crate::case::*;
use crate::fam::{Codec, V3, V5};
use crate::fe::*;
use crate::gen;
use crate::refcodec::{self, Style, SK};
use crate::rng::Rng;
use crate::scn::common::*;
use crate::scn::{Scenario, Tier};
use crate::sim::*;

pub fn scenarios() -> Vec<Scenario> {
    vec![Scenario {
        property: "C13",
        name: "c13-crossfamily",
        gen,
        run,
        quick_runs: 1_000_000,
        weight: 1,
        rule: "case = (valid CONNECT of v3.1 / v3.1.1 / v5.0, decoder family, optional level override 0..=255, optional protocol-name corruption, schedule); non-trivial when sender and decoder family differ or the protocol field is altered; distinct by case hash",
    }]
}

pub fn gen(rng: &mut Rng, tier: Tier, idx: u64) -> Case {
    let fam = match idx % 3 {
        0 => Fam::V31,
        1 => Fam::V311,
        _ => Fam::V5,
    };
    let sw = gen::swarm_for(rng, fam, tier == Tier::Thorough);
    let mut c = Case::new("C13", "c13-crossfamily", fam, Front::A);
    c.packets = vec![gen::gen_packet_of(rng, &sw, 1)];
    if fam == Fam::V5 && rng.chance(1, 300) && !gen::tiny() {
        // a CONNECT larger than any v3 CONNECT can be (several maximal user properties)
        if let Ast::Connect(cn) = &mut c.packets[0] {
            for _ in 0..rng.urange(5, 8) {
                cn.props.push((0x26, PVal::Pair(Bs::s("k"), Bs(vec![b'v'; 65_535]))));
            }
        }
    }
    let dec = rng.below(2) as i64;
    let (level, name) = match rng.below(4) {
        0 | 1 => (-1, 0),
        2 => (((idx / 3) % 256) as i64, 0),
        _ => (if rng.chance(1, 2) { ((idx / 3) % 256) as i64 } else { -1 }, rng.range(1, 37) as i64),
    };
    c.n = vec![dec, level, name];
    let pp = *rng.pick(&[0u64, 200]);
    let (script, tail) = gen_read_script(rng, 64, pp, &[]);
    let cp = *rng.pick(&[0u64, 500]);
    c.cancel = gen_cancel(rng, &script, cp);
    c.read_script = script;
    c.read_tail = tail;
    c.reader_style = rng.below(3) as u8;
    c
}

fn build(c: &Case) -> (Vec<u8>, Vec<u8>, u8, usize) {
    // returns (frame, protocol name bytes as sent, level as sent, offset just after the level)
    let a = &c.packets[0];
    let mut a2 = a.clone();
    if let Ast::Connect(cn) = &mut a2 {
        // 3..: protocol names of other lengths (0..=12 bytes)
        let k = c.n.get(2).copied().unwrap_or(0);
        if k >= 3 {
            const NAMES: [&str; 27] = [
                "", "M", "MQ", "MQT", "MQTTT", "MQIsd", "MQIsdpX", "MQTT-SN", "MQTTMQTT", "MQIsdpv3", "MQTT 3.1.", "MQTT 3.1.1", "MQIsdpMQIsdp",
                "mqtt", "Mqtt", "MQTt", "MQISDP", "mqisdp", "MqIsDp", "MQIsdP", "\0MQTT", "\0\0MQTT", "\0MQIsdp", "MQTT\0", "MQIsdp\0", " MQTT", "MQTT ",
            ];
            let j = k as usize - 3;
            cn.proto_name = if j < NAMES.len() {
                Bs::s(NAMES[j])
            } else {
                // very long names, and genuine names followed by padding of 255 / 256 / 257 / 512 bytes
                // (a length kept in one byte, or compared on a prefix only, would accept those)
                let genuine = c.fam.proto_name();
                match j - NAMES.len() {
                    0 => Bs(vec![b'M'; 65_535]),
                    1 => Bs(vec![b'Q'; 65_534]),
                    n => {
                        let pad = [255usize, 256, 257, 512, 65_280][(n - 2) % 5];
                        let mut v = genuine.to_vec();
                        v.extend(std::iter::repeat(b' ').take(pad.min(65_535 - v.len())));
                        Bs(v)
                    }
                }
            };
        }
    }
    let e = refcodec::ref_encode(&a2, c.fam, &Style::default());
    let mut f = e.bytes.clone();
    let name_span = e.spans.iter().find(|s| s.kind == SK::ProtoName).copied().unwrap();
    let level_span = e.spans.iter().find(|s| s.kind == SK::Level).copied().unwrap();
    match c.n.get(2).copied().unwrap_or(0) {
        1 if name_span.len > 1 => f[name_span.off + 1] = b'q',
        2 if name_span.len > 1 => f[name_span.off + 1] = 0xFF,
        _ => {}
    }
    let lv = c.n.get(1).copied().unwrap_or(-1);
    let name = f[name_span.off..name_span.off + name_span.len].to_vec();
    // an override that turns the header into the valid pair of another family would make the
    // body (generated for `c.fam`) invalid for it: outside the property, so it is not applied
    if lv >= 0 && (proto_of(&name, lv as u8).is_none() || lv as u8 == c.fam.level()) {
        f[level_span.off] = lv as u8;
    }
    let level = f[level_span.off];
    (f, name, level, level_span.off + 1)
}

fn proto_of(name: &[u8], level: u8) -> Option<Protocol> {
    match (name, level) {
        (b"MQIsdp", 3) => Some(Protocol::V310),
        (b"MQTT", 4) => Some(Protocol::V311),
        (b"MQTT", 5) => Some(Protocol::V500),
        _ => None,
    }
}

pub fn run(c: &Case, trace: bool) -> RunOut {
    let mut out = RunOut::default();
    let (frame, name, level, after_level) = build(c);
    let dec_v5 = c.n.first().copied().unwrap_or(0) == 1;
    let sent = proto_of(&name, level);
    out.nontrivial = sent.is_none() || (sent == Some(Protocol::V500)) != dec_v5;
    if dec_v5 {
        check::<V5>(c, &frame, &name, level, after_level, sent, trace, &mut out);
    } else {
        check::<V3>(c, &frame, &name, level, after_level, sent, trace, &mut out);
    }
    out
}

#[allow(clippy::too_many_arguments)]
fn check<D: Codec>(
    c: &Case,
    frame: &[u8],
    name: &[u8],
    level: u8,
    after_level: usize,
    sent: Option<Protocol>,
    trace: bool,
    out: &mut RunOut,
) {
    let d = if D::V5 { "v5" } else { "v3" };
    let stream = Rc::new(frame.to_vec());
    let sig = |clause: String| format!("C13:sent={}:dec={d}:{clause}", match sent { Some(p) => format!("{p:?}"), None => "other".into() });
    let b = fe_block::<D>(&stream);
    out.evals += 1;
    let ar = run_a::<D>(&stream, &c.read_script, c.read_tail, &[], trace, out);
    let pr = run_p::<D>(&stream, &c.read_script, c.read_tail, &c.cancel, &[], false, trace, out);
    let native = |p: Protocol| (p == Protocol::V500) == D::V5;
    let expect: Option<String> = match sent {
        Some(p) if native(p) => None, // native decoding: must accept
        Some(p) => Some(format!("UnexpectedProtocol({p:?})")),
        None => Some(match std::str::from_utf8(name) {
            Ok(s) => format!("InvalidProtocol({s:?}, {level})"),
            Err(_) => "InvalidString".to_string(),
        }),
    };
    for (fname, fe) in [("B", &b), ("A", &ar.fe), ("P", &pr.fe)] {
        match &expect {
            None => {
                // native decoding is C01's business; here it only serves as the reference for resume
                if fe.pkt().is_some() {
                    out.probe("native-accepted");
                }
            }
            Some(want) => {
                let ok = matches!(fe, Fe::Err { e, .. } if D::norm(e).text == *want);
                if !ok {
                    out.violate(
                        sig(format!("{fname}:got={}", fe_class::<D>(fe))),
                        format!(
                            "CONNECT with protocol ({:?}, {level}) given to the {d} decoder, front-end {fname}: expected {want}, got {}\n  frame: {:?}",
                            Bs(name.to_vec()),
                            fe_long::<D>(fe),
                            Bs(frame[..frame.len().min(80)].to_vec())
                        ),
                    );
                }
            }
        }
    }
    // the async decoder must stop right after the protocol name and level ...
    if let (Some(p), Some(_)) = (sent, &expect) {
        if let Fe::Err { consumed: Some(n), .. } = &ar.fe {
            if *n > after_level {
                out.violate(
                    sig("A:over-consumed".into()),
                    format!("unexpected-protocol error after consuming {n} bytes; protocol name and level end at byte {after_level}"),
                );
            } else {
                out.probe("stopped-after-level");
            }
        }
        // ... so that the matching family's known-protocol entry point can carry on
        let core = Core::new(trace);
        let mut rd = SimReader::new(&core, stream.clone(), c.read_script.clone());
        rd.tail = c.read_tail;
        let cap = poll_cap(stream.len(), &c.read_script);
        let first = fe_async::<D>(&core, &mut rd, cap);
        if matches!(&first, Fe::Err { e, .. } if D::norm(e).text.starts_with("UnexpectedProtocol")) {
            // native decode for comparison
            let (resumed, native_pkt): (Result<Result<String, String>, String>, Option<String>) = if p == Protocol::V500 {
                let r = guarded(AssertUnwindSafe(|| {
                    let mut ex = Exec::new(&core, cap);
                    let hdr = v5::Header::new(v5::PacketType::Connect, false, mqtt_proto::QoS::Level0, false, 0);
                    let mut fut = Box::pin(v5::Connect::decode_with_protocol(&mut rd, hdr, p));
                    ex.run(fut.as_mut()).map(|r| r.map(|c| safe_debug(&v5::Packet::Connect(c))).map_err(|e| format!("{e:?}")))
                }));
                let n = fe_block::<V5>(&stream);
                (r.map(|x| x.unwrap_or_else(|_| Err("stuck".into()))), n.pkt().map(safe_debug))
            } else {
                let r = guarded(AssertUnwindSafe(|| {
                    let mut ex = Exec::new(&core, cap);
                    let mut fut = Box::pin(v3::Connect::decode_with_protocol(&mut rd, p));
                    ex.run(fut.as_mut()).map(|r| r.map(|c| safe_debug(&v3::Packet::Connect(c))).map_err(|e| format!("{e:?}")))
                }));
                let n = fe_block::<V3>(&stream);
                (r.map(|x| x.unwrap_or_else(|_| Err("stuck".into()))), n.pkt().map(safe_debug))
            };
            out.evals += 1;
            match (resumed, native_pkt) {
                (Ok(Ok(got)), Some(want)) => {
                    if got != want {
                        out.violate(sig("resume-differs".into()), format!("continuing with decode_with_protocol gives a different CONNECT than native decoding\n  resumed: {got}\n  native:  {want}"));
                    } else {
                        out.probe("resumed-equals-native");
                        if rd.pos != stream.len() {
                            out.violate(sig("resume-consumed".into()), format!("resumed decoding stopped at byte {} of {}", rd.pos, stream.len()));
                        }
                    }
                }
                (r, n) => out.violate(
                    sig("resume-failed".into()),
                    format!("continuing on the same reader with the matching family's decode_with_protocol failed: {r:?}; native decoding gives {n:?}"),
                ),
            }
        }
        out.absorb_core(&core, trace);
    }
}
