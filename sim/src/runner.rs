//! Batch runner: seeded search over many simulated runs, sharded over worker threads by run
//! index (each run is single-threaded and self-contained), results merged in run-index order.

use std::collections::{BTreeMap, HashSet};
use std::sync::atomic::{AtomicBool, AtomicU64, Ordering};
use std::sync::Mutex;
use std::time::{Duration, Instant};

use crate::case::{Case, RunOut};
use crate::rng::{run_seed, Rng};
use crate::scn::{Scenario, Tier};
use crate::sim::Stats;

pub struct Found {
    pub idx: u64,
    pub seed: u64,
    pub case: Case,
    pub signature: String,
    pub detail: String,
}

#[derive(Default)]
pub struct Batch {
    pub runs: u64,
    pub evals: u64,
    pub steps: u64,
    pub stats: Stats,
    pub probes: BTreeMap<String, u64>,
    pub distinct_nontrivial: u64,
    pub distinct_loghashes: u64,
    pub found: Vec<Found>,
    pub samples: Vec<Case>,
    pub wall_s: f64,
    /// (run index, milliseconds) of the slowest single run: harness diagnostics only (wall clock is
    /// never read inside a run, only around it)
    pub slowest: (u64, u128),
    /// fnv of all (idx, log hash) pairs in index order: the determinism witness of the batch
    pub witness: u64,
}

/// Run one case of a scenario (sets the per-case transport style first).
pub fn run_case(run: fn(&Case, bool) -> RunOut, case: &Case, trace: bool) -> RunOut {
    crate::sim::READER_STYLE.with(|s| s.set(case.reader_style));
    crate::sim::WRITER_STYLE.with(|s| s.set(case.writer_style));
    // a panic that escapes the scenario's own guarded library calls (a constructor, accessor or
    // Debug impl of the library panicking on a value) is a violation, not a dead worker
    match crate::fe::guarded(|| run(case, trace)) {
        Ok(o) => o,
        Err(m) => {
            let mut o = RunOut::default();
            o.evals = 1;
            o.violate(
                format!("{}:panic-outside-library-call", case.property),
                format!("the library panicked outside a decoder/encoder call while the harness built or inspected a value (constructor, accessor, Debug): {m}"),
            );
            o
        }
    }
}

// ---------------------------------------------------------------------------------------------
// Non-termination watchdog. A synchronous library call that never returns cannot be caught by the
// poll cap; each worker therefore publishes a heartbeat (bumped whenever the harness starts a
// new sub-evaluation: a transport core or a blocking decode) and the run index it is working on.
// A worker whose heartbeat stands still for VERIF_HANG_S seconds (default 600; single
// sub-evaluations take milliseconds to a few seconds) is reported as a violation with the case it
// is stuck in. Wall-clock time is read only here, never inside a run.

const MAXW: usize = 256;
#[allow(clippy::declare_interior_mutable_const)]
const Z: AtomicU64 = AtomicU64::new(0);
static BEATS: [AtomicU64; MAXW] = [Z; MAXW];
static CUR: [AtomicU64; MAXW] = [Z; MAXW];
thread_local! {
    static WORKER: std::cell::Cell<usize> = const { std::cell::Cell::new(usize::MAX) };
}

/// Called by the harness at the start of every sub-evaluation.
pub fn beat() {
    let w = WORKER.with(|w| w.get());
    if w < MAXW {
        BEATS[w].fetch_add(1, Ordering::Relaxed);
    }
}

/// What to do when a worker hangs: (scenario name, run index). Set by main.
pub static HANG_HOOK: std::sync::OnceLock<fn(&str, u64)> = std::sync::OnceLock::new();

pub fn gen_case(s: &Scenario, master: u64, tier: Tier, idx: u64) -> (u64, Case) {
    let seed = run_seed(master, s.name, idx);
    let mut rng = Rng::new(seed);
    (seed, (s.gen)(&mut rng, tier, idx))
}

struct Shard {
    runs: u64,
    evals: u64,
    steps: u64,
    stats: Stats,
    probes: BTreeMap<String, u64>,
    nontrivial: HashSet<u64>,
    loghashes: HashSet<u64>,
    found: Vec<Found>,
    samples: Vec<(u64, Case)>,
    hashes: Vec<(u64, u64)>,
    slowest: (u64, u128),
}

/// Run `runs` cases (Some) or as many as fit into `budget` (None => use runs).
pub fn run_batch(
    s: &Scenario,
    master: u64,
    tier: Tier,
    runs: u64,
    budget: Option<Duration>,
    jobs: usize,
) -> Batch {
    let start = Instant::now();
    let next = AtomicU64::new(0);
    let stop = AtomicBool::new(false);
    let shards: Mutex<Vec<Shard>> = Mutex::new(Vec::new());
    const BLOCK: u64 = 64;
    let finished = AtomicU64::new(0);
    let njobs = jobs.clamp(1, MAXW);
    let hang_s = std::env::var("VERIF_HANG_S").ok().and_then(|v| v.parse::<u64>().ok()).unwrap_or(600);
    std::thread::scope(|sc| {
        // watchdog
        sc.spawn(|| {
            let mut last: Vec<(u64, Instant)> = (0..njobs).map(|w| (BEATS[w].load(Ordering::Relaxed), Instant::now())).collect();
            while finished.load(Ordering::Relaxed) < njobs as u64 {
                std::thread::sleep(Duration::from_millis(250));
                for w in 0..njobs {
                    let b = BEATS[w].load(Ordering::Relaxed);
                    let cur = CUR[w].load(Ordering::Relaxed);
                    if b != last[w].0 || cur == 0 {
                        last[w] = (b, Instant::now());
                    } else if hang_s > 0 && last[w].1.elapsed() >= Duration::from_secs(hang_s) {
                        if let Some(h) = HANG_HOOK.get() {
                            h(s.name, cur - 1);
                        }
                        last[w] = (b, Instant::now());
                    }
                }
            }
        });
        for wid in 0..njobs {
            let finished = &finished;
            let next = &next;
            let stop = &stop;
            let shards = &shards;
            sc.spawn(move || {
                WORKER.with(|w| w.set(wid));
                CUR[wid].store(0, Ordering::Relaxed);
                struct Done<'a>(&'a AtomicU64, usize);
                impl Drop for Done<'_> {
                    fn drop(&mut self) {
                        CUR[self.1].store(0, Ordering::Relaxed);
                        self.0.fetch_add(1, Ordering::Relaxed);
                    }
                }
                let _done = Done(finished, wid);
                crate::fe::install_panic_hook();
                let mut sh = Shard {
                    runs: 0,
                    evals: 0,
                    steps: 0,
                    stats: Stats::default(),
                    probes: BTreeMap::new(),
                    nontrivial: HashSet::new(),
                    loghashes: HashSet::new(),
                    found: Vec::new(),
                    samples: Vec::new(),
                    hashes: Vec::new(),
                    slowest: (0, 0),
                };
                loop {
                    if stop.load(Ordering::Relaxed) {
                        break;
                    }
                    let b = next.fetch_add(BLOCK, Ordering::Relaxed);
                    if budget.is_none() && b >= runs {
                        break;
                    }
                    if let Some(d) = budget {
                        if start.elapsed() >= d {
                            stop.store(true, Ordering::Relaxed);
                            break;
                        }
                    }
                    let end = if budget.is_none() { (b + BLOCK).min(runs) } else { b + BLOCK };
                    for idx in b..end {
                        let t0 = Instant::now();
                        CUR[wid].store(idx + 1, Ordering::Relaxed);
                        beat();
                        let (seed, case) = gen_case(s, master, tier, idx);
                        let mut out: RunOut = run_case(s.run, &case, false);
                        let ms = t0.elapsed().as_millis();
                        if ms > sh.slowest.1 {
                            sh.slowest = (idx, ms);
                        }
                        // fold the verdict into the hash: evaluations, violations, probes
                        out.mix(&out.evals.to_le_bytes());
                        let sigs: Vec<String> = out.violations.iter().map(|v| v.signature.clone()).collect();
                        for sg in sigs {
                            out.mix(sg.as_bytes());
                        }
                        for p in out.probes.clone() {
                            out.mix(p.as_bytes());
                        }
                        sh.runs += 1;
                        sh.evals += out.evals.max(1);
                        sh.steps += out.steps;
                        sh.stats.add(&out.stats);
                        for p in &out.probes {
                            *sh.probes.entry((*p).to_string()).or_insert(0) += 1;
                        }
                        if out.nontrivial {
                            sh.nontrivial.insert(case.hash64());
                        }
                        sh.loghashes.insert(out.hash);
                        sh.hashes.push((idx, out.hash));
                        if idx < 4 || (idx % 1009 == 0 && sh.samples.len() < 6) {
                            sh.samples.push((idx, case.clone()));
                        }
                        for v in out.violations {
                            if sh.found.len() < 64 {
                                sh.found.push(Found {
                                    idx,
                                    seed,
                                    case: case.clone(),
                                    signature: v.signature,
                                    detail: v.detail,
                                });
                            }
                        }
                    }
                }
                if std::env::var("VERIF_DEBUG_MEM").is_ok() {
                    eprintln!(
                        "shard: runs={} nontrivial={} loghashes={} hashes={} found={} samples={} probes={}",
                        sh.runs, sh.nontrivial.len(), sh.loghashes.len(), sh.hashes.len(), sh.found.len(), sh.samples.len(), sh.probes.len()
                    );
                }
                shards.lock().unwrap().push(sh);
            });
        }
    });
    let mut b = Batch::default();
    let mut nontrivial: HashSet<u64> = HashSet::new();
    let mut loghashes: HashSet<u64> = HashSet::new();
    let mut hashes: Vec<(u64, u64)> = Vec::new();
    let mut samples: Vec<(u64, Case)> = Vec::new();
    for sh in shards.into_inner().unwrap() {
        b.runs += sh.runs;
        b.evals += sh.evals;
        b.steps += sh.steps;
        b.stats.add(&sh.stats);
        for (k, v) in sh.probes {
            *b.probes.entry(k).or_insert(0) += v;
        }
        if sh.slowest.1 > b.slowest.1 {
            b.slowest = sh.slowest;
        }
        nontrivial.extend(sh.nontrivial);
        loghashes.extend(sh.loghashes);
        b.found.extend(sh.found);
        hashes.extend(sh.hashes);
        samples.extend(sh.samples);
    }
    b.found.sort_by_key(|f| f.idx);
    hashes.sort_unstable();
    let mut w: u64 = 0xcbf2_9ce4_8422_2325;
    for (i, h) in &hashes {
        for x in [*i, *h] {
            for by in x.to_le_bytes() {
                w ^= u64::from(by);
                w = w.wrapping_mul(0x0000_0100_0000_01B3);
            }
        }
    }
    b.witness = w;
    samples.sort_by_key(|x| x.0);
    b.samples = samples.into_iter().map(|x| x.1).take(5).collect();
    b.distinct_nontrivial = nontrivial.len() as u64;
    b.distinct_loghashes = loghashes.len() as u64;
    b.wall_s = start.elapsed().as_secs_f64();
    b
}
