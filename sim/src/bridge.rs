//! Bridge between the neutral AST and library values. Uses only public constructors and fields,
//! and its own variant-name <-> number tables (never `as u8`), so a wrong discriminant or a
//! swapped table entry in the library is visible as a difference.

use std::convert::TryFrom;
use std::sync::Arc;

use bytes::Bytes;
use mqtt_proto::{v3, v5, Pid, Protocol, QoS, QosPid, TopicFilter, TopicName};

use crate::ast::*;

macro_rules! codes {
    ($to:ident, $from:ident, $t:ty, [$($v:ident = $n:expr),+ $(,)?]) => {
        pub fn $to(c: $t) -> u8 {
            match c { $(<$t>::$v => $n),+ }
        }
        pub fn $from(n: u8) -> Option<$t> {
            match n { $($n => Some(<$t>::$v),)+ _ => None }
        }
    };
}

codes!(v3_connack_to, v3_connack_from, v3::ConnectReturnCode, [
    Accepted = 0, UnacceptableProtocolVersion = 1, IdentifierRejected = 2,
    ServerUnavailable = 3, BadUserNameOrPassword = 4, NotAuthorized = 5,
]);
codes!(v3_suback_to, v3_suback_from, v3::SubscribeReturnCode, [
    MaxLevel0 = 0, MaxLevel1 = 1, MaxLevel2 = 2, Failure = 0x80,
]);
codes!(qos_to, qos_from, QoS, [Level0 = 0, Level1 = 1, Level2 = 2]);
codes!(rh_to, rh_from, v5::RetainHandling, [
    SendAtSubscribe = 0, SendAtSubscribeIfNotExist = 1, DoNotSend = 2,
]);
codes!(v5_connack_to, v5_connack_from, v5::ConnectReasonCode, [
    Success = 0x00, UnspecifiedError = 0x80, MalformedPacket = 0x81, ProtocolError = 0x82,
    ImplementationSpecificError = 0x83, UnsupportedProtocolVersion = 0x84,
    ClientIdentifierNotValid = 0x85, BadUserNameOrPassword = 0x86, NotAuthorized = 0x87,
    ServerUnavailable = 0x88, ServerBusy = 0x89, Banned = 0x8A, BadAuthMethod = 0x8C,
    TopicNameInvalid = 0x90, PacketTooLarge = 0x95, QuotaExceeded = 0x97,
    PayloadFormatInvalid = 0x99, RetainNotSupported = 0x9A, QoSNotSupported = 0x9B,
    UseAnotherServer = 0x9C, ServerMoved = 0x9D, ConnectionRateExceeded = 0x9F,
]);
codes!(v5_puback_to, v5_puback_from, v5::PubackReasonCode, [
    Success = 0x00, NoMatchingSubscribers = 0x10, UnspecifiedError = 0x80,
    ImplementationSpecificError = 0x83, NotAuthorized = 0x87, TopicNameInvalid = 0x90,
    PacketIdentifierInUse = 0x91, QuotaExceeded = 0x97, PayloadFormatInvalid = 0x99,
]);
codes!(v5_pubrec_to, v5_pubrec_from, v5::PubrecReasonCode, [
    Success = 0x00, NoMatchingSubscribers = 0x10, UnspecifiedError = 0x80,
    ImplementationSpecificError = 0x83, NotAuthorized = 0x87, TopicNameInvalid = 0x90,
    PacketIdentifierInUse = 0x91, QuotaExceeded = 0x97, PayloadFormatInvalid = 0x99,
]);
codes!(v5_pubrel_to, v5_pubrel_from, v5::PubrelReasonCode, [
    Success = 0x00, PacketIdentifierNotFound = 0x92,
]);
codes!(v5_pubcomp_to, v5_pubcomp_from, v5::PubcompReasonCode, [
    Success = 0x00, PacketIdentifierNotFound = 0x92,
]);
codes!(v5_suback_to, v5_suback_from, v5::SubscribeReasonCode, [
    GrantedQoS0 = 0x00, GrantedQoS1 = 0x01, GrantedQoS2 = 0x02, UnspecifiedError = 0x80,
    ImplementationSpecificError = 0x83, NotAuthorized = 0x87, TopicFilterInvalid = 0x8F,
    PacketIdentifierInUse = 0x91, QuotaExceeded = 0x97, SharedSubscriptionNotSupported = 0x9E,
    SubscriptionIdentifiersNotSupported = 0xA1, WildcardSubscriptionsNotSupported = 0xA2,
]);
codes!(v5_unsuback_to, v5_unsuback_from, v5::UnsubscribeReasonCode, [
    Success = 0x00, NoSubscriptionExisted = 0x11, UnspecifiedError = 0x80,
    ImplementationSpecificError = 0x83, NotAuthorized = 0x87, TopicFilterInvalid = 0x8F,
    PacketIdentifierInUse = 0x91,
]);
codes!(v5_disconnect_to, v5_disconnect_from, v5::DisconnectReasonCode, [
    NormalDisconnect = 0x00, DisconnectWithWillMessage = 0x04, UnspecifiedError = 0x80,
    MalformedPacket = 0x81, ProtocolError = 0x82, ImplementationSpecificError = 0x83,
    NotAuthorized = 0x87, ServerBusy = 0x89, ServerShuttingDown = 0x8B, KeepAliveTimeout = 0x8D,
    SessionTakenOver = 0x8E, TopicFilterInvalid = 0x8F, TopicNameInvalid = 0x90,
    ReceiveMaximumExceeded = 0x93, TopicAliasInvalid = 0x94, PacketTooLarge = 0x95,
    MessageRateTooHigh = 0x96, QuotaExceeded = 0x97, AdministrativeAction = 0x98,
    PayloadFormatInvalid = 0x99, RetainNotSupported = 0x9A, QoSNotSupported = 0x9B,
    UserAnotherServer = 0x9C, ServerMoved = 0x9D, SharedSubscriptionNotSupported = 0x9E,
    ConnectionRateExceeded = 0x9F, MaximumConnectTime = 0xA0,
    SubscriptionIdentifiersNotSupported = 0xA1, WildcardSubscriptionsNotSupported = 0xA2,
]);
codes!(v5_auth_to, v5_auth_from, v5::AuthReasonCode, [
    Success = 0x00, ContinueAuthentication = 0x18, ReAuthentication = 0x19,
]);

pub fn proto_to(p: Protocol) -> (Bs, u8) {
    match p {
        Protocol::V310 => (Bs(b"MQIsdp".to_vec()), 3),
        Protocol::V311 => (Bs(b"MQTT".to_vec()), 4),
        Protocol::V500 => (Bs(b"MQTT".to_vec()), 5),
    }
}

pub fn proto_from(name: &Bs, level: u8) -> Option<Protocol> {
    match (name.0.as_slice(), level) {
        (b"MQIsdp", 3) => Some(Protocol::V310),
        (b"MQTT", 4) => Some(Protocol::V311),
        (b"MQTT", 5) => Some(Protocol::V500),
        _ => None,
    }
}

fn arc(b: &Bs) -> Option<Arc<String>> {
    String::from_utf8(b.0.clone()).ok().map(Arc::new)
}
fn bytes(b: &Bs) -> Bytes {
    Bytes::from(b.0.clone())
}
fn tname(b: &Bs) -> Option<TopicName> {
    TopicName::try_from(String::from_utf8(b.0.clone()).ok()?).ok()
}
fn tfilter(b: &Bs) -> Option<TopicFilter> {
    TopicFilter::try_from(String::from_utf8(b.0.clone()).ok()?).ok()
}
fn pid(x: u16) -> Option<Pid> {
    Pid::try_from(x).ok()
}
fn bs_str(s: &str) -> Bs {
    Bs(s.as_bytes().to_vec())
}
fn qospid_from(qos: u8, p: Option<u16>) -> Option<QosPid> {
    match (qos, p) {
        (0, None) => Some(QosPid::Level0),
        (1, Some(p)) => Some(QosPid::Level1(pid(p)?)),
        (2, Some(p)) => Some(QosPid::Level2(pid(p)?)),
        _ => None,
    }
}
fn qospid_to(q: QosPid) -> (u8, Option<u16>) {
    match q {
        QosPid::Level0 => (0, None),
        QosPid::Level1(p) => (1, Some(p.value())),
        QosPid::Level2(p) => (2, Some(p.value())),
    }
}

// ---------------------------------------------------------------------------------------------
// v3

pub fn v3_from_ast(a: &Ast) -> Option<v3::Packet> {
    Some(match a {
        Ast::Connect(c) => {
            let protocol = proto_from(&c.proto_name, c.level)?;
            if protocol == Protocol::V500 || !c.props.is_empty() {
                return None;
            }
            let last_will = match &c.will {
                None => None,
                Some(w) => {
                    if !w.props.is_empty() {
                        return None;
                    }
                    Some(v3::LastWill {
                        qos: qos_from(w.qos)?,
                        retain: w.retain,
                        topic_name: tname(&w.topic)?,
                        message: bytes(&w.payload),
                    })
                }
            };
            v3::Packet::Connect(v3::Connect {
                protocol,
                clean_session: c.clean,
                keep_alive: c.keep_alive,
                client_id: arc(&c.client_id)?,
                last_will,
                username: match &c.username {
                    None => None,
                    Some(u) => Some(arc(u)?),
                },
                password: c.password.as_ref().map(bytes),
            })
        }
        Ast::Connack { sp, code, props } if props.is_empty() => {
            v3::Packet::Connack(v3::Connack { session_present: *sp, code: v3_connack_from(*code)? })
        }
        Ast::Publish { dup, qos, retain, topic, pid: p, props, payload } if props.is_empty() => {
            v3::Packet::Publish(v3::Publish {
                dup: *dup,
                retain: *retain,
                qos_pid: qospid_from(*qos, *p)?,
                topic_name: tname(topic)?,
                payload: bytes(payload),
            })
        }
        Ast::Ack { kind, pid: p, code: 0, props } if props.is_empty() => {
            let p = pid(*p)?;
            match kind {
                4 => v3::Packet::Puback(p),
                5 => v3::Packet::Pubrec(p),
                6 => v3::Packet::Pubrel(p),
                7 => v3::Packet::Pubcomp(p),
                _ => return None,
            }
        }
        Ast::Subscribe { pid: p, props, topics } if props.is_empty() => {
            let mut t = Vec::new();
            for (f, o) in topics {
                t.push((tfilter(f)?, qos_from(*o)?));
            }
            v3::Packet::Subscribe(v3::Subscribe { pid: pid(*p)?, topics: t })
        }
        Ast::Suback { pid: p, props, codes } if props.is_empty() => {
            let mut t = Vec::new();
            for c in codes {
                t.push(v3_suback_from(*c)?);
            }
            v3::Packet::Suback(v3::Suback { pid: pid(*p)?, topics: t })
        }
        Ast::Unsubscribe { pid: p, props, topics } if props.is_empty() => {
            let mut t = Vec::new();
            for f in topics {
                t.push(tfilter(f)?);
            }
            v3::Packet::Unsubscribe(v3::Unsubscribe { pid: pid(*p)?, topics: t })
        }
        Ast::Unsuback { pid: p, props, codes } if props.is_empty() && codes.is_empty() => {
            v3::Packet::Unsuback(pid(*p)?)
        }
        Ast::Pingreq => v3::Packet::Pingreq,
        Ast::Pingresp => v3::Packet::Pingresp,
        Ast::Disconnect { code: 0, props } if props.is_empty() => v3::Packet::Disconnect,
        _ => return None,
    })
}

pub fn v3_to_ast(p: &v3::Packet) -> Ast {
    match p {
        v3::Packet::Connect(c) => {
            let (proto_name, level) = proto_to(c.protocol);
            Ast::Connect(Box::new(ConnectA {
                proto_name,
                level,
                clean: c.clean_session,
                keep_alive: c.keep_alive,
                props: vec![],
                client_id: bs_str(&c.client_id),
                will: c.last_will.as_ref().map(|w| WillA {
                    qos: qos_to(w.qos),
                    retain: w.retain,
                    props: vec![],
                    topic: bs_str(&w.topic_name),
                    payload: Bs(w.message.to_vec()),
                }),
                username: c.username.as_ref().map(|u| bs_str(u)),
                password: c.password.as_ref().map(|b| Bs(b.to_vec())),
            }))
        }
        v3::Packet::Connack(c) => {
            Ast::Connack { sp: c.session_present, code: v3_connack_to(c.code), props: vec![] }
        }
        v3::Packet::Publish(p) => {
            let (qos, pid) = qospid_to(p.qos_pid);
            Ast::Publish {
                dup: p.dup,
                qos,
                retain: p.retain,
                topic: bs_str(&p.topic_name),
                pid,
                props: vec![],
                payload: Bs(p.payload.to_vec()),
            }
        }
        v3::Packet::Puback(p) => Ast::Ack { kind: 4, pid: p.value(), code: 0, props: vec![] },
        v3::Packet::Pubrec(p) => Ast::Ack { kind: 5, pid: p.value(), code: 0, props: vec![] },
        v3::Packet::Pubrel(p) => Ast::Ack { kind: 6, pid: p.value(), code: 0, props: vec![] },
        v3::Packet::Pubcomp(p) => Ast::Ack { kind: 7, pid: p.value(), code: 0, props: vec![] },
        v3::Packet::Subscribe(s) => Ast::Subscribe {
            pid: s.pid.value(),
            props: vec![],
            topics: s.topics.iter().map(|(f, q)| (bs_str(f), qos_to(*q))).collect(),
        },
        v3::Packet::Suback(s) => Ast::Suback {
            pid: s.pid.value(),
            props: vec![],
            codes: s.topics.iter().map(|c| v3_suback_to(*c)).collect(),
        },
        v3::Packet::Unsubscribe(s) => Ast::Unsubscribe {
            pid: s.pid.value(),
            props: vec![],
            topics: s.topics.iter().map(|f| bs_str(f)).collect(),
        },
        v3::Packet::Unsuback(p) => Ast::Unsuback { pid: p.value(), props: vec![], codes: vec![] },
        v3::Packet::Pingreq => Ast::Pingreq,
        v3::Packet::Pingresp => Ast::Pingresp,
        v3::Packet::Disconnect => Ast::Disconnect { code: 0, props: vec![] },
    }
}

// ---------------------------------------------------------------------------------------------
// v5 properties

fn set<T>(slot: &mut Option<T>, v: T) -> Option<()> {
    if slot.is_some() {
        None
    } else {
        *slot = Some(v);
        Some(())
    }
}
fn b01(x: u8) -> Option<bool> {
    match x {
        0 => Some(false),
        1 => Some(true),
        _ => None,
    }
}
fn up(k: &Bs, v: &Bs) -> Option<v5::UserProperty> {
    Some(v5::UserProperty { name: arc(k)?, value: arc(v)? })
}
fn vbi(x: u32) -> Option<v5::VarByteInt> {
    v5::VarByteInt::try_from(x).ok()
}

struct Out(Props);
impl Out {
    fn byte(&mut self, id: u8, v: Option<bool>) {
        if let Some(v) = v {
            self.0.push((id, PVal::Byte(if v { 1 } else { 0 })));
        }
    }
    fn u16(&mut self, id: u8, v: Option<u16>) {
        if let Some(v) = v {
            self.0.push((id, PVal::U16(v)));
        }
    }
    fn u32(&mut self, id: u8, v: Option<u32>) {
        if let Some(v) = v {
            self.0.push((id, PVal::U32(v)));
        }
    }
    fn str(&mut self, id: u8, v: &Option<Arc<String>>) {
        if let Some(v) = v {
            self.0.push((id, PVal::Str(bs_str(v))));
        }
    }
    fn topic(&mut self, id: u8, v: &Option<TopicName>) {
        if let Some(v) = v {
            self.0.push((id, PVal::Str(bs_str(v))));
        }
    }
    fn bin(&mut self, id: u8, v: &Option<Bytes>) {
        if let Some(v) = v {
            self.0.push((id, PVal::Bin(Bs(v.to_vec()))));
        }
    }
    fn var(&mut self, id: u8, v: Option<v5::VarByteInt>) {
        if let Some(v) = v {
            self.0.push((id, PVal::Var(v.value())));
        }
    }
    fn users(&mut self, v: &[v5::UserProperty]) {
        for u in v {
            self.0.push((0x26, PVal::Pair(bs_str(&u.name), bs_str(&u.value))));
        }
    }
    fn done(mut self) -> Props {
        canon_props(&mut self.0);
        self.0
    }
}

pub fn connect_props_from(p: &Props) -> Option<v5::ConnectProperties> {
    let mut o = v5::ConnectProperties::default();
    for (id, v) in p {
        match (id, v) {
            (0x11, PVal::U32(x)) => set(&mut o.session_expiry_interval, *x)?,
            (0x21, PVal::U16(x)) => set(&mut o.receive_max, *x)?,
            (0x27, PVal::U32(x)) => set(&mut o.max_packet_size, *x)?,
            (0x22, PVal::U16(x)) => set(&mut o.topic_alias_max, *x)?,
            (0x19, PVal::Byte(x)) => set(&mut o.request_response_info, b01(*x)?)?,
            (0x17, PVal::Byte(x)) => set(&mut o.request_problem_info, b01(*x)?)?,
            (0x15, PVal::Str(x)) => set(&mut o.auth_method, arc(x)?)?,
            (0x16, PVal::Bin(x)) => set(&mut o.auth_data, bytes(x))?,
            (0x26, PVal::Pair(k, v)) => o.user_properties.push(up(k, v)?),
            _ => return None,
        }
    }
    Some(o)
}
pub fn connect_props_to(o: &v5::ConnectProperties) -> Props {
    let mut p = Out(vec![]);
    p.u32(0x11, o.session_expiry_interval);
    p.u16(0x21, o.receive_max);
    p.u32(0x27, o.max_packet_size);
    p.u16(0x22, o.topic_alias_max);
    p.byte(0x19, o.request_response_info);
    p.byte(0x17, o.request_problem_info);
    p.str(0x15, &o.auth_method);
    p.bin(0x16, &o.auth_data);
    p.users(&o.user_properties);
    p.done()
}

pub fn will_props_from(p: &Props) -> Option<v5::WillProperties> {
    let mut o = v5::WillProperties::default();
    for (id, v) in p {
        match (id, v) {
            (0x18, PVal::U32(x)) => set(&mut o.delay_interval, *x)?,
            (0x01, PVal::Byte(x)) => set(&mut o.payload_is_utf8, b01(*x)?)?,
            (0x02, PVal::U32(x)) => set(&mut o.message_expiry_interval, *x)?,
            (0x03, PVal::Str(x)) => set(&mut o.content_type, arc(x)?)?,
            (0x08, PVal::Str(x)) => set(&mut o.response_topic, tname(x)?)?,
            (0x09, PVal::Bin(x)) => set(&mut o.correlation_data, bytes(x))?,
            (0x26, PVal::Pair(k, v)) => o.user_properties.push(up(k, v)?),
            _ => return None,
        }
    }
    Some(o)
}
pub fn will_props_to(o: &v5::WillProperties) -> Props {
    let mut p = Out(vec![]);
    p.u32(0x18, o.delay_interval);
    p.byte(0x01, o.payload_is_utf8);
    p.u32(0x02, o.message_expiry_interval);
    p.str(0x03, &o.content_type);
    p.topic(0x08, &o.response_topic);
    p.bin(0x09, &o.correlation_data);
    p.users(&o.user_properties);
    p.done()
}

pub fn connack_props_from(p: &Props) -> Option<v5::ConnackProperties> {
    let mut o = v5::ConnackProperties::default();
    for (id, v) in p {
        match (id, v) {
            (0x11, PVal::U32(x)) => set(&mut o.session_expiry_interval, *x)?,
            (0x21, PVal::U16(x)) => set(&mut o.receive_max, *x)?,
            (0x24, PVal::Byte(x)) if *x <= 1 => set(&mut o.max_qos, qos_from(*x)?)?,
            (0x25, PVal::Byte(x)) => set(&mut o.retain_available, b01(*x)?)?,
            (0x27, PVal::U32(x)) => set(&mut o.max_packet_size, *x)?,
            (0x12, PVal::Str(x)) => set(&mut o.assigned_client_id, arc(x)?)?,
            (0x22, PVal::U16(x)) => set(&mut o.topic_alias_max, *x)?,
            (0x1F, PVal::Str(x)) => set(&mut o.reason_string, arc(x)?)?,
            (0x28, PVal::Byte(x)) => set(&mut o.wildcard_subscription_available, b01(*x)?)?,
            (0x29, PVal::Byte(x)) => set(&mut o.subscription_id_available, b01(*x)?)?,
            (0x2A, PVal::Byte(x)) => set(&mut o.shared_subscription_available, b01(*x)?)?,
            (0x13, PVal::U16(x)) => set(&mut o.server_keep_alive, *x)?,
            (0x1A, PVal::Str(x)) => set(&mut o.response_info, arc(x)?)?,
            (0x1C, PVal::Str(x)) => set(&mut o.server_reference, arc(x)?)?,
            (0x15, PVal::Str(x)) => set(&mut o.auth_method, arc(x)?)?,
            (0x16, PVal::Bin(x)) => set(&mut o.auth_data, bytes(x))?,
            (0x26, PVal::Pair(k, v)) => o.user_properties.push(up(k, v)?),
            _ => return None,
        }
    }
    Some(o)
}
pub fn connack_props_to(o: &v5::ConnackProperties) -> Props {
    let mut p = Out(vec![]);
    p.u32(0x11, o.session_expiry_interval);
    p.u16(0x21, o.receive_max);
    if let Some(q) = o.max_qos {
        p.0.push((0x24, PVal::Byte(qos_to(q))));
    }
    p.byte(0x25, o.retain_available);
    p.u32(0x27, o.max_packet_size);
    p.str(0x12, &o.assigned_client_id);
    p.u16(0x22, o.topic_alias_max);
    p.str(0x1F, &o.reason_string);
    p.byte(0x28, o.wildcard_subscription_available);
    p.byte(0x29, o.subscription_id_available);
    p.byte(0x2A, o.shared_subscription_available);
    p.u16(0x13, o.server_keep_alive);
    p.str(0x1A, &o.response_info);
    p.str(0x1C, &o.server_reference);
    p.str(0x15, &o.auth_method);
    p.bin(0x16, &o.auth_data);
    p.users(&o.user_properties);
    p.done()
}

pub fn publish_props_from(p: &Props) -> Option<v5::PublishProperties> {
    let mut o = v5::PublishProperties::default();
    for (id, v) in p {
        match (id, v) {
            (0x01, PVal::Byte(x)) => set(&mut o.payload_is_utf8, b01(*x)?)?,
            (0x02, PVal::U32(x)) => set(&mut o.message_expiry_interval, *x)?,
            (0x23, PVal::U16(x)) => set(&mut o.topic_alias, *x)?,
            (0x08, PVal::Str(x)) => set(&mut o.response_topic, tname(x)?)?,
            (0x09, PVal::Bin(x)) => set(&mut o.correlation_data, bytes(x))?,
            (0x0B, PVal::Var(x)) => set(&mut o.subscription_id, vbi(*x)?)?,
            (0x03, PVal::Str(x)) => set(&mut o.content_type, arc(x)?)?,
            (0x26, PVal::Pair(k, v)) => o.user_properties.push(up(k, v)?),
            _ => return None,
        }
    }
    Some(o)
}
pub fn publish_props_to(o: &v5::PublishProperties) -> Props {
    let mut p = Out(vec![]);
    p.byte(0x01, o.payload_is_utf8);
    p.u32(0x02, o.message_expiry_interval);
    p.u16(0x23, o.topic_alias);
    p.topic(0x08, &o.response_topic);
    p.bin(0x09, &o.correlation_data);
    p.var(0x0B, o.subscription_id);
    p.str(0x03, &o.content_type);
    p.users(&o.user_properties);
    p.done()
}

/// The property sets that consist of Reason String + User Property only.
macro_rules! reason_props {
    ($from:ident, $to:ident, $t:ty) => {
        pub fn $from(p: &Props) -> Option<$t> {
            let mut o = <$t>::default();
            for (id, v) in p {
                match (id, v) {
                    (0x1F, PVal::Str(x)) => set(&mut o.reason_string, arc(x)?)?,
                    (0x26, PVal::Pair(k, v)) => o.user_properties.push(up(k, v)?),
                    _ => return None,
                }
            }
            Some(o)
        }
        pub fn $to(o: &$t) -> Props {
            let mut p = Out(vec![]);
            p.str(0x1F, &o.reason_string);
            p.users(&o.user_properties);
            p.done()
        }
    };
}
reason_props!(puback_props_from, puback_props_to, v5::PubackProperties);
reason_props!(pubrec_props_from, pubrec_props_to, v5::PubrecProperties);
reason_props!(pubrel_props_from, pubrel_props_to, v5::PubrelProperties);
reason_props!(pubcomp_props_from, pubcomp_props_to, v5::PubcompProperties);
reason_props!(suback_props_from, suback_props_to, v5::SubackProperties);
reason_props!(unsuback_props_from, unsuback_props_to, v5::UnsubackProperties);

pub fn subscribe_props_from(p: &Props) -> Option<v5::SubscribeProperties> {
    let mut o = v5::SubscribeProperties::default();
    for (id, v) in p {
        match (id, v) {
            (0x0B, PVal::Var(x)) => set(&mut o.subscription_id, vbi(*x)?)?,
            (0x26, PVal::Pair(k, v)) => o.user_properties.push(up(k, v)?),
            _ => return None,
        }
    }
    Some(o)
}
pub fn subscribe_props_to(o: &v5::SubscribeProperties) -> Props {
    let mut p = Out(vec![]);
    p.var(0x0B, o.subscription_id);
    p.users(&o.user_properties);
    p.done()
}

pub fn unsubscribe_props_from(p: &Props) -> Option<v5::UnsubscribeProperties> {
    let mut o = v5::UnsubscribeProperties::default();
    for (id, v) in p {
        match (id, v) {
            (0x26, PVal::Pair(k, v)) => o.user_properties.push(up(k, v)?),
            _ => return None,
        }
    }
    Some(o)
}
pub fn unsubscribe_props_to(o: &v5::UnsubscribeProperties) -> Props {
    let mut p = Out(vec![]);
    p.users(&o.user_properties);
    p.done()
}

pub fn disconnect_props_from(p: &Props) -> Option<v5::DisconnectProperties> {
    let mut o = v5::DisconnectProperties::default();
    for (id, v) in p {
        match (id, v) {
            (0x11, PVal::U32(x)) => set(&mut o.session_expiry_interval, *x)?,
            (0x1F, PVal::Str(x)) => set(&mut o.reason_string, arc(x)?)?,
            (0x1C, PVal::Str(x)) => set(&mut o.server_reference, arc(x)?)?,
            (0x26, PVal::Pair(k, v)) => o.user_properties.push(up(k, v)?),
            _ => return None,
        }
    }
    Some(o)
}
pub fn disconnect_props_to(o: &v5::DisconnectProperties) -> Props {
    let mut p = Out(vec![]);
    p.u32(0x11, o.session_expiry_interval);
    p.str(0x1F, &o.reason_string);
    p.str(0x1C, &o.server_reference);
    p.users(&o.user_properties);
    p.done()
}

pub fn auth_props_from(p: &Props) -> Option<v5::AuthProperties> {
    let mut o = v5::AuthProperties::default();
    for (id, v) in p {
        match (id, v) {
            (0x15, PVal::Str(x)) => set(&mut o.auth_method, arc(x)?)?,
            (0x16, PVal::Bin(x)) => set(&mut o.auth_data, bytes(x))?,
            (0x1F, PVal::Str(x)) => set(&mut o.reason_string, arc(x)?)?,
            (0x26, PVal::Pair(k, v)) => o.user_properties.push(up(k, v)?),
            _ => return None,
        }
    }
    Some(o)
}
pub fn auth_props_to(o: &v5::AuthProperties) -> Props {
    let mut p = Out(vec![]);
    p.str(0x15, &o.auth_method);
    p.bin(0x16, &o.auth_data);
    p.str(0x1F, &o.reason_string);
    p.users(&o.user_properties);
    p.done()
}

pub fn subopts_from(b: u8) -> Option<v5::SubscriptionOptions> {
    if b & 0xC0 != 0 {
        return None;
    }
    Some(v5::SubscriptionOptions {
        max_qos: qos_from(b & 3)?,
        no_local: b & 4 != 0,
        retain_as_published: b & 8 != 0,
        retain_handling: rh_from((b >> 4) & 3)?,
    })
}
pub fn subopts_to(o: &v5::SubscriptionOptions) -> u8 {
    qos_to(o.max_qos)
        | if o.no_local { 4 } else { 0 }
        | if o.retain_as_published { 8 } else { 0 }
        | (rh_to(o.retain_handling) << 4)
}

// ---------------------------------------------------------------------------------------------
// v5 packets

pub fn v5_from_ast(a: &Ast) -> Option<v5::Packet> {
    Some(match a {
        Ast::Connect(c) => {
            let protocol = proto_from(&c.proto_name, c.level)?;
            if protocol != Protocol::V500 {
                return None;
            }
            let last_will = match &c.will {
                None => None,
                Some(w) => Some(v5::LastWill {
                    qos: qos_from(w.qos)?,
                    retain: w.retain,
                    topic_name: tname(&w.topic)?,
                    payload: bytes(&w.payload),
                    properties: will_props_from(&w.props)?,
                }),
            };
            v5::Packet::Connect(v5::Connect {
                protocol,
                clean_start: c.clean,
                keep_alive: c.keep_alive,
                properties: connect_props_from(&c.props)?,
                client_id: arc(&c.client_id)?,
                last_will,
                username: match &c.username {
                    None => None,
                    Some(u) => Some(arc(u)?),
                },
                password: c.password.as_ref().map(bytes),
            })
        }
        Ast::Connack { sp, code, props } => v5::Packet::Connack(v5::Connack {
            session_present: *sp,
            reason_code: v5_connack_from(*code)?,
            properties: connack_props_from(props)?,
        }),
        Ast::Publish { dup, qos, retain, topic, pid: p, props, payload } => {
            v5::Packet::Publish(v5::Publish {
                dup: *dup,
                retain: *retain,
                qos_pid: qospid_from(*qos, *p)?,
                topic_name: tname(topic)?,
                payload: bytes(payload),
                properties: publish_props_from(props)?,
            })
        }
        Ast::Ack { kind, pid: p, code, props } => {
            let p = pid(*p)?;
            match kind {
                4 => v5::Packet::Puback(v5::Puback {
                    pid: p,
                    reason_code: v5_puback_from(*code)?,
                    properties: puback_props_from(props)?,
                }),
                5 => v5::Packet::Pubrec(v5::Pubrec {
                    pid: p,
                    reason_code: v5_pubrec_from(*code)?,
                    properties: pubrec_props_from(props)?,
                }),
                6 => v5::Packet::Pubrel(v5::Pubrel {
                    pid: p,
                    reason_code: v5_pubrel_from(*code)?,
                    properties: pubrel_props_from(props)?,
                }),
                7 => v5::Packet::Pubcomp(v5::Pubcomp {
                    pid: p,
                    reason_code: v5_pubcomp_from(*code)?,
                    properties: pubcomp_props_from(props)?,
                }),
                _ => return None,
            }
        }
        Ast::Subscribe { pid: p, props, topics } => {
            let mut t = Vec::new();
            for (f, o) in topics {
                t.push((tfilter(f)?, subopts_from(*o)?));
            }
            v5::Packet::Subscribe(v5::Subscribe {
                pid: pid(*p)?,
                properties: subscribe_props_from(props)?,
                topics: t,
            })
        }
        Ast::Suback { pid: p, props, codes } => {
            let mut t = Vec::new();
            for c in codes {
                t.push(v5_suback_from(*c)?);
            }
            v5::Packet::Suback(v5::Suback {
                pid: pid(*p)?,
                properties: suback_props_from(props)?,
                topics: t,
            })
        }
        Ast::Unsubscribe { pid: p, props, topics } => {
            let mut t = Vec::new();
            for f in topics {
                t.push(tfilter(f)?);
            }
            v5::Packet::Unsubscribe(v5::Unsubscribe {
                pid: pid(*p)?,
                properties: unsubscribe_props_from(props)?,
                topics: t,
            })
        }
        Ast::Unsuback { pid: p, props, codes } => {
            let mut t = Vec::new();
            for c in codes {
                t.push(v5_unsuback_from(*c)?);
            }
            v5::Packet::Unsuback(v5::Unsuback {
                pid: pid(*p)?,
                properties: unsuback_props_from(props)?,
                topics: t,
            })
        }
        Ast::Pingreq => v5::Packet::Pingreq,
        Ast::Pingresp => v5::Packet::Pingresp,
        Ast::Disconnect { code, props } => v5::Packet::Disconnect(v5::Disconnect {
            reason_code: v5_disconnect_from(*code)?,
            properties: disconnect_props_from(props)?,
        }),
        Ast::Auth { code, props } => v5::Packet::Auth(v5::Auth {
            reason_code: v5_auth_from(*code)?,
            properties: auth_props_from(props)?,
        }),
    })
}

pub fn v5_to_ast(p: &v5::Packet) -> Ast {
    match p {
        v5::Packet::Connect(c) => {
            let (proto_name, level) = proto_to(c.protocol);
            Ast::Connect(Box::new(ConnectA {
                proto_name,
                level,
                clean: c.clean_start,
                keep_alive: c.keep_alive,
                props: connect_props_to(&c.properties),
                client_id: bs_str(&c.client_id),
                will: c.last_will.as_ref().map(|w| WillA {
                    qos: qos_to(w.qos),
                    retain: w.retain,
                    props: will_props_to(&w.properties),
                    topic: bs_str(&w.topic_name),
                    payload: Bs(w.payload.to_vec()),
                }),
                username: c.username.as_ref().map(|u| bs_str(u)),
                password: c.password.as_ref().map(|b| Bs(b.to_vec())),
            }))
        }
        v5::Packet::Connack(c) => Ast::Connack {
            sp: c.session_present,
            code: v5_connack_to(c.reason_code),
            props: connack_props_to(&c.properties),
        },
        v5::Packet::Publish(p) => {
            let (qos, pid) = qospid_to(p.qos_pid);
            Ast::Publish {
                dup: p.dup,
                qos,
                retain: p.retain,
                topic: bs_str(&p.topic_name),
                pid,
                props: publish_props_to(&p.properties),
                payload: Bs(p.payload.to_vec()),
            }
        }
        v5::Packet::Puback(p) => Ast::Ack {
            kind: 4,
            pid: p.pid.value(),
            code: v5_puback_to(p.reason_code),
            props: puback_props_to(&p.properties),
        },
        v5::Packet::Pubrec(p) => Ast::Ack {
            kind: 5,
            pid: p.pid.value(),
            code: v5_pubrec_to(p.reason_code),
            props: pubrec_props_to(&p.properties),
        },
        v5::Packet::Pubrel(p) => Ast::Ack {
            kind: 6,
            pid: p.pid.value(),
            code: v5_pubrel_to(p.reason_code),
            props: pubrel_props_to(&p.properties),
        },
        v5::Packet::Pubcomp(p) => Ast::Ack {
            kind: 7,
            pid: p.pid.value(),
            code: v5_pubcomp_to(p.reason_code),
            props: pubcomp_props_to(&p.properties),
        },
        v5::Packet::Subscribe(s) => Ast::Subscribe {
            pid: s.pid.value(),
            props: subscribe_props_to(&s.properties),
            topics: s.topics.iter().map(|(f, o)| (bs_str(f), subopts_to(o))).collect(),
        },
        v5::Packet::Suback(s) => Ast::Suback {
            pid: s.pid.value(),
            props: suback_props_to(&s.properties),
            codes: s.topics.iter().map(|c| v5_suback_to(*c)).collect(),
        },
        v5::Packet::Unsubscribe(s) => Ast::Unsubscribe {
            pid: s.pid.value(),
            props: unsubscribe_props_to(&s.properties),
            topics: s.topics.iter().map(|f| bs_str(f)).collect(),
        },
        v5::Packet::Unsuback(s) => Ast::Unsuback {
            pid: s.pid.value(),
            props: unsuback_props_to(&s.properties),
            codes: s.topics.iter().map(|c| v5_unsuback_to(*c)).collect(),
        },
        v5::Packet::Pingreq => Ast::Pingreq,
        v5::Packet::Pingresp => Ast::Pingresp,
        v5::Packet::Disconnect(d) => Ast::Disconnect {
            code: v5_disconnect_to(d.reason_code),
            props: disconnect_props_to(&d.properties),
        },
        v5::Packet::Auth(a) => Ast::Auth {
            code: v5_auth_to(a.reason_code),
            props: auth_props_to(&a.properties),
        },
    }
}
