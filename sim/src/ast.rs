//! Wire-shaped neutral AST of MQTT control packets. It shares nothing with the library: raw
//! integers, byte strings, properties as (id, typed value) in wire order. Strings are byte
//! vectors so that malformed text can be represented.

use serde::{Deserialize, Deserializer, Serialize, Serializer};
use std::fmt;

#[derive(Clone, Copy, PartialEq, Eq, Debug, Serialize, Deserialize, Hash, PartialOrd, Ord)]
pub enum Fam {
    V31,
    V311,
    V5,
}

impl Fam {
    pub fn is_v5(self) -> bool {
        self == Fam::V5
    }
    pub fn name(self) -> &'static str {
        match self {
            Fam::V31 => "v3.1",
            Fam::V311 => "v3.1.1",
            Fam::V5 => "v5.0",
        }
    }
    pub fn level(self) -> u8 {
        match self {
            Fam::V31 => 3,
            Fam::V311 => 4,
            Fam::V5 => 5,
        }
    }
    pub fn proto_name(self) -> &'static [u8] {
        match self {
            Fam::V31 => b"MQIsdp",
            _ => b"MQTT",
        }
    }
}

/// Byte string with a readable JSON form: "s:text" when printable ASCII, "x:hex" otherwise,
/// "r:<hexbyte>*<count>" for long runs of one byte.
#[derive(Clone, PartialEq, Eq, Hash, PartialOrd, Ord, Default)]
pub struct Bs(pub Vec<u8>);

impl Bs {
    pub fn s(x: &str) -> Bs {
        Bs(x.as_bytes().to_vec())
    }
    pub fn len(&self) -> usize {
        self.0.len()
    }
    pub fn is_empty(&self) -> bool {
        self.0.is_empty()
    }
    pub fn as_str(&self) -> Option<&str> {
        std::str::from_utf8(&self.0).ok()
    }
    pub fn render(&self) -> String {
        let v = &self.0;
        if v.len() > 24 && v.iter().all(|b| *b == v[0]) {
            return format!("r:{:02x}*{}", v[0], v.len());
        }
        if v.iter().all(|b| (0x20..0x7f).contains(b)) {
            format!("s:{}", String::from_utf8_lossy(v))
        } else {
            let mut s = String::with_capacity(2 + v.len() * 2);
            s.push_str("x:");
            for b in v {
                s.push_str(&format!("{b:02x}"));
            }
            s
        }
    }
    pub fn parse(s: &str) -> Result<Bs, String> {
        if let Some(t) = s.strip_prefix("s:") {
            Ok(Bs(t.as_bytes().to_vec()))
        } else if let Some(t) = s.strip_prefix("x:") {
            unhex(t).map(Bs)
        } else if let Some(t) = s.strip_prefix("r:") {
            let (b, n) = t.split_once('*').ok_or("bad run")?;
            let b = u8::from_str_radix(b, 16).map_err(|e| e.to_string())?;
            let n: usize = n.parse().map_err(|_| "bad run count")?;
            Ok(Bs(vec![b; n]))
        } else {
            Err(format!("bad byte string {s:?}"))
        }
    }
}

pub fn unhex(t: &str) -> Result<Vec<u8>, String> {
    if t.len() % 2 != 0 {
        return Err("odd hex".into());
    }
    (0..t.len() / 2)
        .map(|i| u8::from_str_radix(&t[2 * i..2 * i + 2], 16).map_err(|e| e.to_string()))
        .collect()
}

pub fn hex(v: &[u8]) -> String {
    let mut s = String::with_capacity(v.len() * 2);
    for b in v {
        s.push_str(&format!("{b:02x}"));
    }
    s
}

impl fmt::Debug for Bs {
    fn fmt(&self, f: &mut fmt::Formatter<'_>) -> fmt::Result {
        let r = self.render();
        if r.len() > 80 {
            write!(f, "{}..({} bytes)", &r[..60], self.0.len())
        } else {
            write!(f, "{r}")
        }
    }
}

impl Serialize for Bs {
    fn serialize<S: Serializer>(&self, s: S) -> Result<S::Ok, S::Error> {
        s.serialize_str(&self.render())
    }
}

impl<'de> Deserialize<'de> for Bs {
    fn deserialize<D: Deserializer<'de>>(d: D) -> Result<Bs, D::Error> {
        let s = String::deserialize(d)?;
        Bs::parse(&s).map_err(serde::de::Error::custom)
    }
}

#[derive(Clone, PartialEq, Eq, Debug, Serialize, Deserialize, Hash)]
pub enum PVal {
    Byte(u8),
    U16(u16),
    U32(u32),
    Var(u32),
    Str(Bs),
    Bin(Bs),
    Pair(Bs, Bs),
}

pub type Props = Vec<(u8, PVal)>;

#[derive(Clone, PartialEq, Eq, Debug, Serialize, Deserialize, Hash)]
pub struct WillA {
    pub qos: u8,
    pub retain: bool,
    pub props: Props,
    pub topic: Bs,
    pub payload: Bs,
}

#[derive(Clone, PartialEq, Eq, Debug, Serialize, Deserialize, Hash)]
pub struct ConnectA {
    pub proto_name: Bs,
    pub level: u8,
    pub clean: bool,
    pub keep_alive: u16,
    pub props: Props,
    pub client_id: Bs,
    pub will: Option<WillA>,
    pub username: Option<Bs>,
    pub password: Option<Bs>,
}

#[derive(Clone, PartialEq, Eq, Debug, Serialize, Deserialize, Hash)]
pub enum Ast {
    Connect(Box<ConnectA>),
    Connack { sp: bool, code: u8, props: Props },
    Publish { dup: bool, qos: u8, retain: bool, topic: Bs, pid: Option<u16>, props: Props, payload: Bs },
    /// kind: 4 PUBACK, 5 PUBREC, 6 PUBREL, 7 PUBCOMP
    Ack { kind: u8, pid: u16, code: u8, props: Props },
    Subscribe { pid: u16, props: Props, topics: Vec<(Bs, u8)> },
    Suback { pid: u16, props: Props, codes: Vec<u8> },
    Unsubscribe { pid: u16, props: Props, topics: Vec<Bs> },
    /// v3: no codes
    Unsuback { pid: u16, props: Props, codes: Vec<u8> },
    Pingreq,
    Pingresp,
    Disconnect { code: u8, props: Props },
    Auth { code: u8, props: Props },
}

impl Ast {
    /// MQTT control packet type number (1..=15).
    pub fn type_no(&self) -> u8 {
        match self {
            Ast::Connect(_) => 1,
            Ast::Connack { .. } => 2,
            Ast::Publish { .. } => 3,
            Ast::Ack { kind, .. } => *kind,
            Ast::Subscribe { .. } => 8,
            Ast::Suback { .. } => 9,
            Ast::Unsubscribe { .. } => 10,
            Ast::Unsuback { .. } => 11,
            Ast::Pingreq => 12,
            Ast::Pingresp => 13,
            Ast::Disconnect { .. } => 14,
            Ast::Auth { .. } => 15,
        }
    }

    pub fn type_name(&self) -> &'static str {
        type_name(self.type_no())
    }

    pub fn props(&self) -> Option<&Props> {
        match self {
            Ast::Connect(c) => Some(&c.props),
            Ast::Connack { props, .. }
            | Ast::Publish { props, .. }
            | Ast::Ack { props, .. }
            | Ast::Subscribe { props, .. }
            | Ast::Suback { props, .. }
            | Ast::Unsubscribe { props, .. }
            | Ast::Unsuback { props, .. }
            | Ast::Disconnect { props, .. }
            | Ast::Auth { props, .. } => Some(props),
            _ => None,
        }
    }

    pub fn props_mut(&mut self) -> Option<&mut Props> {
        match self {
            Ast::Connect(c) => Some(&mut c.props),
            Ast::Connack { props, .. }
            | Ast::Publish { props, .. }
            | Ast::Ack { props, .. }
            | Ast::Subscribe { props, .. }
            | Ast::Suback { props, .. }
            | Ast::Unsubscribe { props, .. }
            | Ast::Unsuback { props, .. }
            | Ast::Disconnect { props, .. }
            | Ast::Auth { props, .. } => Some(props),
            _ => None,
        }
    }

    /// Canonical form for comparisons: known properties sorted by id (stable), user properties
    /// after them in their original relative order. Property order carries no meaning in MQTT
    /// except among user properties.
    pub fn canon(&self) -> Ast {
        let mut a = self.clone();
        if let Some(p) = a.props_mut() {
            canon_props(p);
        }
        if let Ast::Connect(c) = &mut a {
            if let Some(w) = c.will.as_mut() {
                canon_props(&mut w.props);
            }
        }
        a
    }

    /// Number of optional things present: used as the non-triviality measure of a packet.
    pub fn richness(&self) -> usize {
        let p = self.props().map_or(0, |p| p.len());
        match self {
            Ast::Connect(c) => {
                p + c.will.is_some() as usize
                    + c.username.is_some() as usize
                    + c.password.is_some() as usize
                    + c.will.as_ref().map_or(0, |w| w.props.len())
            }
            Ast::Publish { pid, payload, .. } => p + pid.is_some() as usize + (!payload.is_empty()) as usize,
            Ast::Subscribe { topics, .. } => p + topics.len() - 1,
            Ast::Unsubscribe { topics, .. } => p + topics.len() - 1,
            Ast::Suback { codes, .. } | Ast::Unsuback { codes, .. } => p + codes.len(),
            Ast::Ack { code, .. } | Ast::Disconnect { code, .. } | Ast::Auth { code, .. } => {
                p + (*code != 0) as usize
            }
            Ast::Connack { code, sp, .. } => p + (*code != 0) as usize + *sp as usize,
            _ => 0,
        }
    }
}

pub fn canon_props(p: &mut Props) {
    // stable sort: user properties (0x26) last, others by id
    p.sort_by_key(|(id, _)| if *id == 0x26 { 0x1000 } else { u32::from(*id) });
}

pub fn type_name(t: u8) -> &'static str {
    match t {
        1 => "CONNECT",
        2 => "CONNACK",
        3 => "PUBLISH",
        4 => "PUBACK",
        5 => "PUBREC",
        6 => "PUBREL",
        7 => "PUBCOMP",
        8 => "SUBSCRIBE",
        9 => "SUBACK",
        10 => "UNSUBSCRIBE",
        11 => "UNSUBACK",
        12 => "PINGREQ",
        13 => "PINGRESP",
        14 => "DISCONNECT",
        15 => "AUTH",
        _ => "RESERVED",
    }
}
