//! Simulator core: event log, simulated transports (the only I/O the library sees), and the
//! single-threaded executor that decides when a pending future is polled, woken or cancelled.
//! There is no wall clock, thread or OS randomness in here: every decision comes from the
//! scripts in the `Case`, which are derived from one seed.

use std::cell::RefCell;
use std::future::Future;
use std::io;
use std::pin::Pin;
use std::rc::Rc;
use std::sync::atomic::{AtomicUsize, Ordering};
use std::sync::Arc;
use std::task::{Context, Poll, Wake, Waker};

use serde::{Deserialize, Serialize};
use tokio::io::{AsyncRead, AsyncWrite, ReadBuf};

// ---------------------------------------------------------------------------------------------
// I/O error kinds used by fault injection

pub const KINDS: [io::ErrorKind; 38] = [
    // kinds a well-behaved async transport would express differently (Pending / retry) but which a
    // reader may still hand out as plain errors: they must surface like any other kind
    io::ErrorKind::WouldBlock,
    io::ErrorKind::Interrupted,
    // an *error* of kind UnexpectedEof (as opposed to a clean close, F4): must surface as an I/O
    // error of that kind (which is_eof() then also recognises)
    io::ErrorKind::UnexpectedEof,
    io::ErrorKind::ConnectionReset,
    io::ErrorKind::ConnectionAborted,
    io::ErrorKind::BrokenPipe,
    io::ErrorKind::TimedOut,
    io::ErrorKind::PermissionDenied,
    io::ErrorKind::Other,
    io::ErrorKind::InvalidInput,
    io::ErrorKind::InvalidData,
    // the rest of the stable kinds (appended, so that kind ids in older replay files keep their
    // meaning): a transport may fail with any of them and none is special to the codec
    io::ErrorKind::NotFound,
    io::ErrorKind::ConnectionRefused,
    io::ErrorKind::HostUnreachable,
    io::ErrorKind::NetworkUnreachable,
    io::ErrorKind::NotConnected,
    io::ErrorKind::AddrInUse,
    io::ErrorKind::AddrNotAvailable,
    io::ErrorKind::NetworkDown,
    io::ErrorKind::AlreadyExists,
    io::ErrorKind::NotADirectory,
    io::ErrorKind::IsADirectory,
    io::ErrorKind::DirectoryNotEmpty,
    io::ErrorKind::ReadOnlyFilesystem,
    io::ErrorKind::StaleNetworkFileHandle,
    io::ErrorKind::WriteZero,
    io::ErrorKind::StorageFull,
    io::ErrorKind::NotSeekable,
    io::ErrorKind::QuotaExceeded,
    io::ErrorKind::FileTooLarge,
    io::ErrorKind::ResourceBusy,
    io::ErrorKind::ExecutableFileBusy,
    io::ErrorKind::Deadlock,
    io::ErrorKind::CrossesDevices,
    io::ErrorKind::TooManyLinks,
    io::ErrorKind::ArgumentListTooLong,
    io::ErrorKind::Unsupported,
    io::ErrorKind::OutOfMemory,
];

/// Pseudo kind id for `SimReader::with_faults`: not an error but one empty read at that position.
pub const EMPTY_READ: u8 = 255;

pub fn kind_of(id: u8) -> io::ErrorKind {
    KINDS[id as usize % KINDS.len()]
}

/// Kind for a *write* fault: `Interrupted` is excluded there because `std::io::Write::write_all`
/// legitimately retries it (that is fault kind F10, not an error to surface).
pub fn write_kind_id(id: u8) -> u8 {
    let id = id % KINDS.len() as u8;
    if KINDS[id as usize] == io::ErrorKind::Interrupted {
        (id + 1) % KINDS.len() as u8
    } else {
        id
    }
}

pub fn kind_name(k: io::ErrorKind) -> String {
    format!("{k:?}")
}

// ---------------------------------------------------------------------------------------------
// Scripts

#[derive(Clone, Copy, Debug, PartialEq, Eq, Serialize, Deserialize, Hash)]
pub enum WakeP {
    /// wake the task before returning Pending
    Now,
    /// wake it k simulated steps later (event queue)
    Later(u32),
    /// never wake: the executor will poll spuriously
    Never,
}

#[derive(Clone, Copy, Debug, PartialEq, Eq, Serialize, Deserialize, Hash)]
pub enum ReadEv {
    /// deliver min(n, capacity, bytes left) bytes
    Chunk(usize),
    Pending(WakeP),
}

#[derive(Clone, Copy, Debug, PartialEq, Eq, Serialize, Deserialize, Hash)]
pub enum WriteEv {
    /// accept min(n, offered) bytes, n >= 1
    Accept(usize),
    Pending(WakeP),
    /// EINTR (sync sink only: legal, must be retried by write_all)
    Interrupted,
}

#[derive(Clone, Copy, Debug, PartialEq, Eq, Serialize, Deserialize, Hash)]
pub enum Fault {
    /// one-shot error of kind KINDS[id]
    Err(u8),
    /// write returns Ok(0)
    Zero,
}

// ---------------------------------------------------------------------------------------------
// Event log

#[derive(Clone, Debug, PartialEq, Eq)]
pub enum Ev {
    Read { pos: usize, cap: usize, got: usize },
    ReadPending { pos: usize, cap: usize, wake: WakeP },
    ReadEof { pos: usize, cap: usize },
    ReadErr { pos: usize, cap: usize, kind: u8 },
    Write { pos: usize, offered: usize, took: usize },
    WritePending { pos: usize, offered: usize, wake: WakeP },
    WriteIntr { pos: usize },
    WriteZero { pos: usize },
    WriteErr { pos: usize, kind: u8 },
    Poll { n: u32 },
    PollPending,
    PollReady,
    TimerWake { at: u64 },
    Spurious,
    Cancel,
    Note(&'static str, u64),
}

impl Ev {
    fn feed(&self, h: &mut u64) {
        fn f(h: &mut u64, x: u64) {
            for b in x.to_le_bytes() {
                *h ^= u64::from(b);
                *h = h.wrapping_mul(0x0000_0100_0000_01B3);
            }
        }
        fn w(x: WakeP) -> u64 {
            match x {
                WakeP::Now => 1,
                WakeP::Later(k) => 2 + u64::from(k),
                WakeP::Never => 0,
            }
        }
        match *self {
            Ev::Read { pos, cap, got } => {
                f(h, 1);
                f(h, pos as u64);
                f(h, cap as u64);
                f(h, got as u64)
            }
            Ev::ReadPending { pos, cap, wake } => {
                f(h, 2);
                f(h, pos as u64);
                f(h, cap as u64);
                f(h, w(wake))
            }
            Ev::ReadEof { pos, cap } => {
                f(h, 3);
                f(h, pos as u64);
                f(h, cap as u64)
            }
            Ev::ReadErr { pos, cap, kind } => {
                f(h, 4);
                f(h, pos as u64);
                f(h, cap as u64);
                f(h, u64::from(kind))
            }
            Ev::Write { pos, offered, took } => {
                f(h, 5);
                f(h, pos as u64);
                f(h, offered as u64);
                f(h, took as u64)
            }
            Ev::WritePending { pos, offered, wake } => {
                f(h, 6);
                f(h, pos as u64);
                f(h, offered as u64);
                f(h, w(wake))
            }
            Ev::WriteIntr { pos } => {
                f(h, 7);
                f(h, pos as u64)
            }
            Ev::WriteZero { pos } => {
                f(h, 8);
                f(h, pos as u64)
            }
            Ev::WriteErr { pos, kind } => {
                f(h, 9);
                f(h, pos as u64);
                f(h, u64::from(kind))
            }
            Ev::Poll { n } => {
                f(h, 10);
                f(h, u64::from(n))
            }
            Ev::PollPending => f(h, 11),
            Ev::PollReady => f(h, 12),
            Ev::TimerWake { at } => {
                f(h, 13);
                f(h, at)
            }
            Ev::Spurious => f(h, 14),
            Ev::Cancel => f(h, 15),
            Ev::Note(s, x) => {
                f(h, 16);
                f(h, crate::rng::fnv64(s.as_bytes()));
                f(h, x)
            }
        }
    }
}

#[derive(Clone, Debug, Default, Serialize, Deserialize, PartialEq, Eq)]
pub struct Stats {
    pub reads: u64,
    pub short_read: u64,
    pub read_pending: u64,
    pub spurious_poll: u64,
    pub timer_wake: u64,
    pub cancel: u64,
    pub eof: u64,
    pub read_err: u64,
    pub writes: u64,
    pub short_write: u64,
    pub write_pending: u64,
    pub write_err: u64,
    pub write_zero: u64,
    pub eintr: u64,
    pub polls: u64,
    pub steps: u64,
}

impl Stats {
    pub fn add(&mut self, o: &Stats) {
        self.reads += o.reads;
        self.short_read += o.short_read;
        self.read_pending += o.read_pending;
        self.spurious_poll += o.spurious_poll;
        self.timer_wake += o.timer_wake;
        self.cancel += o.cancel;
        self.eof += o.eof;
        self.read_err += o.read_err;
        self.writes += o.writes;
        self.short_write += o.short_write;
        self.write_pending += o.write_pending;
        self.write_err += o.write_err;
        self.write_zero += o.write_zero;
        self.eintr += o.eintr;
        self.polls += o.polls;
        self.steps += o.steps;
    }
}

pub struct Core {
    pub hash: u64,
    pub trace: Option<Vec<Ev>>,
    pub clock: u64,
    seq: u64,
    timers: Vec<(u64, u64, Waker)>,
    pub stats: Stats,
    /// set by a transport when it returns Pending during the current poll
    pub transport_pending: bool,
    /// violations detected by the simulator itself (transport contract, lost wake-ups, ...)
    pub sim_violations: Vec<String>,
}

pub type CoreRef = Rc<RefCell<Core>>;

/// Marker of the non-termination variant among `sim_violations`.
pub const LOST_WAKE: &str = "LOST-WAKEUP";

impl Core {
    pub fn new(trace: bool) -> CoreRef {
        crate::runner::beat();
        Rc::new(RefCell::new(Core {
            hash: 0xcbf2_9ce4_8422_2325,
            trace: if trace { Some(Vec::new()) } else { None },
            clock: 0,
            seq: 0,
            timers: Vec::new(),
            stats: Stats::default(),
            transport_pending: false,
            sim_violations: Vec::new(),
        }))
    }

    pub fn ev(&mut self, e: Ev) {
        self.stats.steps += 1;
        self.clock += 1;
        e.feed(&mut self.hash);
        if let Some(t) = self.trace.as_mut() {
            if t.len() < 20_000 {
                t.push(e);
            }
        }
    }

    fn register(&mut self, wake: WakeP, waker: &Waker) {
        match wake {
            WakeP::Now => waker.wake_by_ref(),
            WakeP::Later(k) => {
                self.seq += 1;
                let due = self.clock + u64::from(k);
                self.timers.push((due, self.seq, waker.clone()));
            }
            WakeP::Never => {}
        }
    }

    pub fn trace_text(&self) -> Vec<String> {
        match &self.trace {
            None => Vec::new(),
            Some(t) => t.iter().map(|e| format!("{e:?}")).collect(),
        }
    }
}

// ---------------------------------------------------------------------------------------------
// SimReader

thread_local! {
    /// reader fill style of the case being run (see `Case::reader_style`)
    pub static READER_STYLE: std::cell::Cell<u8> = const { std::cell::Cell::new(0) };
    /// bit 0: the simulated AsyncWrite advertises and implements vectored writes;
    /// bits 1-2: how many times a flush / shutdown of the sink is not ready before it completes
    pub static WRITER_STYLE: std::cell::Cell<u8> = const { std::cell::Cell::new(0) };
}

pub fn flush_pendings() -> u8 {
    (WRITER_STYLE.with(|s| s.get()) >> 1) & 3
}

pub struct SimReader {
    core: CoreRef,
    pub data: Rc<Vec<u8>>,
    pub pos: usize,
    script: Vec<ReadEv>,
    sp: usize,
    /// (position, kind id): one-shot read errors, fire when `pos` reaches the position
    faults: Vec<(usize, u8, bool)>,
    eof_served: u32,
    /// (pos, cap) of every read offered, for the "never asks beyond the frame" oracle
    pub offers: Vec<(usize, usize)>,
    pub record_offers: bool,
    /// chunk size once the script is exhausted (0 = everything that is left)
    pub tail: usize,
    style: u8,
}

/// Raised (as a panic payload) when a decoder keeps reading after EOF was served many times.
pub const SPIN_MARK: &str = "SIM-SPIN: reader polled after EOF more than 8 times";

impl SimReader {
    pub fn new(core: &CoreRef, data: Rc<Vec<u8>>, script: Vec<ReadEv>) -> SimReader {
        SimReader {
            core: core.clone(),
            data,
            pos: 0,
            script,
            sp: 0,
            faults: Vec::new(),
            eof_served: 0,
            offers: Vec::new(),
            record_offers: false,
            tail: 0,
            style: READER_STYLE.with(|s| s.get()),
        }
    }

    pub fn with_faults(mut self, faults: &[(usize, u8)]) -> SimReader {
        self.faults = faults.iter().map(|(p, k)| (*p, *k, false)).collect();
        self
    }

    pub fn reset_eof_counter(&mut self) {
        self.eof_served = 0;
    }

    pub fn script_left(&self) -> usize {
        self.script.len() - self.sp.min(self.script.len())
    }
}

impl AsyncRead for SimReader {
    fn poll_read(
        self: Pin<&mut Self>,
        cx: &mut Context<'_>,
        buf: &mut ReadBuf<'_>,
    ) -> Poll<io::Result<()>> {
        let this = self.get_mut();
        let cap = buf.remaining();
        let pos = this.pos;
        let mut core = this.core.borrow_mut();
        core.stats.reads += 1;
        if this.record_offers {
            this.offers.push((pos, cap));
        }
        // one-shot injected error at this byte position
        for f in this.faults.iter_mut() {
            if !f.2 && f.0 == pos && f.1 == EMPTY_READ {
                // one-shot empty read: Ready(Ok) with nothing filled although data follows (what a
                // reader wrapped around a drained buffer or a zero-length record hands out); every
                // front-end must take it for the end of the stream
                f.2 = true;
                core.stats.eof += 1;
                core.ev(Ev::ReadEof { pos, cap });
                return Poll::Ready(Ok(()));
            }
            if !f.2 && f.0 == pos {
                f.2 = true;
                core.stats.read_err += 1;
                core.ev(Ev::ReadErr { pos, cap, kind: f.1 });
                // the payload of the injected error varies with the position: a plain message, an
                // io::Error of another kind wrapped inside, or (as a tunnelling transport would
                // produce) one of the codec's own error values. Only the *kind* may matter.
                let kind = kind_of(f.1);
                let err = match pos % 4 {
                    0 => io::Error::new(kind, "injected read fault"),
                    1 => io::Error::new(kind, io::Error::new(io::ErrorKind::UnexpectedEof, "inner")),
                    2 => io::Error::new(kind, mqtt_proto::Error::InvalidHeader),
                    _ => io::Error::new(kind, mqtt_proto::Error::IoError(io::ErrorKind::UnexpectedEof, "eof".to_owned())),
                };
                return Poll::Ready(Err(err));
            }
        }
        let left = this.data.len() - pos;
        if left == 0 {
            this.eof_served += 1;
            core.stats.eof += 1;
            core.ev(Ev::ReadEof { pos, cap });
            if this.eof_served > 8 {
                drop(core);
                panic!("{}", SPIN_MARK);
            }
            return Poll::Ready(Ok(()));
        }
        let ev = if this.sp < this.script.len() {
            this.sp += 1;
            this.script[this.sp - 1]
        } else {
            ReadEv::Chunk(if this.tail == 0 { usize::MAX } else { this.tail })
        };
        match ev {
            ReadEv::Pending(wake) => {
                core.stats.read_pending += 1;
                core.transport_pending = true;
                core.ev(Ev::ReadPending { pos, cap, wake });
                core.register(wake, cx.waker());
                Poll::Pending
            }
            ReadEv::Chunk(n) => {
                let mut n = n.max(1).min(cap).min(left);
                // never deliver across a pending fault position
                for f in this.faults.iter() {
                    if !f.2 && f.0 > pos {
                        n = n.min(f.0 - pos);
                    }
                }
                match this.style {
                    1 => {
                        // zero-initialise everything that is offered, then fill a prefix of it
                        // (bounded: a decoder may offer a 256 MiB buffer for a hostile length)
                        let dst = buf.initialize_unfilled_to(cap.min(n + 4096));
                        dst[..n].copy_from_slice(&this.data[pos..pos + n]);
                        buf.advance(n);
                    }
                    2 => {
                        let dst = buf.initialize_unfilled_to(n);
                        dst.copy_from_slice(&this.data[pos..pos + n]);
                        buf.advance(n);
                    }
                    _ => buf.put_slice(&this.data[pos..pos + n]),
                }
                this.pos += n;
                if n < cap.min(left) {
                    core.stats.short_read += 1;
                }
                core.ev(Ev::Read { pos, cap, got: n });
                Poll::Ready(Ok(()))
            }
        }
    }
}

// ---------------------------------------------------------------------------------------------
// SimWriter (AsyncWrite) and SimSink (io::Write) share one implementation

pub struct SimWriter {
    core: CoreRef,
    pub accepted: Vec<u8>,
    script: Vec<WriteEv>,
    sp: usize,
    /// (position, fault, fired)
    faults: Vec<(usize, Fault, bool)>,
    pub max_accept: usize,
    pub tail: usize,
    /// not-ready results still to hand out before the current flush / shutdown completes
    flush_left: u8,
}

impl SimWriter {
    pub fn new(core: &CoreRef, script: Vec<WriteEv>) -> SimWriter {
        SimWriter {
            core: core.clone(),
            accepted: Vec::new(),
            script,
            sp: 0,
            faults: Vec::new(),
            max_accept: usize::MAX,
            tail: 0,
            flush_left: flush_pendings(),
        }
    }

    /// Flush / shutdown of the simulated sink: not-ready `flush_pendings()` times (woken at once),
    /// then done. A sink that buffers (BufWriter, TLS) behaves like this; the bytes it has accepted
    /// are not affected.
    fn flush_step(&mut self, cx: &mut Context<'_>) -> Poll<io::Result<()>> {
        let mut core = self.core.borrow_mut();
        if self.flush_left > 0 {
            self.flush_left -= 1;
            core.stats.write_pending += 1;
            core.transport_pending = true;
            core.ev(Ev::Note("flush-pending", self.accepted.len() as u64));
            core.register(WakeP::Now, cx.waker());
            return Poll::Pending;
        }
        self.flush_left = flush_pendings();
        core.ev(Ev::Note("flush", self.accepted.len() as u64));
        Poll::Ready(Ok(()))
    }

    pub fn with_faults(mut self, faults: &[(usize, Fault)]) -> SimWriter {
        self.faults = faults.iter().map(|(p, f)| (*p, *f, false)).collect();
        self
    }

    fn next_ev(&mut self) -> WriteEv {
        if self.sp < self.script.len() {
            self.sp += 1;
            self.script[self.sp - 1]
        } else {
            WriteEv::Accept(if self.tail == 0 { usize::MAX } else { self.tail })
        }
    }

    /// Common write step. `waker` is None for the sync sink.
    fn step(&mut self, data: &[u8], waker: Option<&Waker>) -> Poll<io::Result<usize>> {
        let pos = self.accepted.len();
        let core_rc = self.core.clone();
        let mut core = core_rc.borrow_mut();
        core.stats.writes += 1;
        if data.is_empty() {
            core.ev(Ev::Write { pos, offered: 0, took: 0 });
            return Poll::Ready(Ok(0));
        }
        for f in self.faults.iter_mut() {
            if !f.2 && f.0 == pos {
                f.2 = true;
                match f.1 {
                    Fault::Err(k) => {
                        core.stats.write_err += 1;
                        core.ev(Ev::WriteErr { pos, kind: k });
                        return Poll::Ready(Err(io::Error::new(kind_of(k), "injected write fault")));
                    }
                    Fault::Zero => {
                        core.stats.write_zero += 1;
                        core.ev(Ev::WriteZero { pos });
                        return Poll::Ready(Ok(0));
                    }
                }
            }
        }
        loop {
            match self.next_ev() {
                WriteEv::Pending(wake) => {
                    if let Some(w) = waker {
                        core.stats.write_pending += 1;
                        core.transport_pending = true;
                        core.ev(Ev::WritePending { pos, offered: data.len(), wake });
                        core.register(wake, w);
                        return Poll::Pending;
                    }
                    // sync sink: not applicable, take the next event
                }
                WriteEv::Interrupted => {
                    if waker.is_none() {
                        core.stats.eintr += 1;
                        core.ev(Ev::WriteIntr { pos });
                        return Poll::Ready(Err(io::Error::new(
                            io::ErrorKind::Interrupted,
                            "injected EINTR",
                        )));
                    }
                    // async writer: tokio does not retry EINTR; not a legal transient there
                }
                WriteEv::Accept(n) => {
                    let mut n = n.max(1).min(data.len()).min(self.max_accept);
                    for f in self.faults.iter() {
                        if !f.2 && f.0 > pos {
                            n = n.min(f.0 - pos);
                        }
                    }
                    self.accepted.extend_from_slice(&data[..n]);
                    if n < data.len() {
                        core.stats.short_write += 1;
                    }
                    core.ev(Ev::Write { pos, offered: data.len(), took: n });
                    return Poll::Ready(Ok(n));
                }
            }
        }
    }
}

impl AsyncWrite for SimWriter {
    fn poll_write(
        self: Pin<&mut Self>,
        cx: &mut Context<'_>,
        buf: &[u8],
    ) -> Poll<io::Result<usize>> {
        let w = cx.waker().clone();
        self.get_mut().step(buf, Some(&w))
    }
    fn poll_flush(self: Pin<&mut Self>, cx: &mut Context<'_>) -> Poll<io::Result<()>> {
        self.get_mut().flush_step(cx)
    }
    fn poll_shutdown(self: Pin<&mut Self>, cx: &mut Context<'_>) -> Poll<io::Result<()>> {
        self.get_mut().flush_step(cx)
    }
    fn is_write_vectored(&self) -> bool {
        WRITER_STYLE.with(|s| s.get()) & 1 == 1
    }
    /// Gathered write: the buffers are taken as one logical buffer, so a short write can end
    /// anywhere inside any of them (what a socket with a nearly full send buffer does).
    fn poll_write_vectored(
        self: Pin<&mut Self>,
        cx: &mut Context<'_>,
        bufs: &[io::IoSlice<'_>],
    ) -> Poll<io::Result<usize>> {
        let mut all: Vec<u8> = Vec::new();
        for b in bufs {
            all.extend_from_slice(b);
        }
        let w = cx.waker().clone();
        self.get_mut().step(&all, Some(&w))
    }
}

/// The same writer seen through `std::io::Write`.
pub struct SimSink(pub SimWriter);

impl io::Write for SimSink {
    fn write(&mut self, buf: &[u8]) -> io::Result<usize> {
        match self.0.step(buf, None) {
            Poll::Ready(r) => r,
            Poll::Pending => unreachable!("sync sink never pends"),
        }
    }
    fn flush(&mut self) -> io::Result<()> {
        Ok(())
    }
}

// ---------------------------------------------------------------------------------------------
// Executor

struct WakeFlag(AtomicUsize);

impl Wake for WakeFlag {
    fn wake(self: Arc<Self>) {
        self.0.fetch_add(1, Ordering::SeqCst);
    }
    fn wake_by_ref(self: &Arc<Self>) {
        self.0.fetch_add(1, Ordering::SeqCst);
    }
}

pub struct Exec {
    core: CoreRef,
    flag: Arc<WakeFlag>,
    waker: Waker,
    pub polls: u32,
    pub max_polls: u32,
}

#[derive(Debug, Clone, PartialEq, Eq)]
pub enum Stuck {
    /// more polls than the progress bound allows
    PollCap,
}

impl Exec {
    pub fn new(core: &CoreRef, max_polls: u32) -> Exec {
        let flag = Arc::new(WakeFlag(AtomicUsize::new(0)));
        let waker = Waker::from(flag.clone());
        Exec { core: core.clone(), flag, waker, polls: 0, max_polls }
    }

    /// Poll once. Records lost-wake / swallowed-pending violations.
    pub fn poll_once<F: Future + ?Sized>(&mut self, fut: Pin<&mut F>) -> Result<Poll<F::Output>, Stuck> {
        self.polls += 1;
        if self.polls > self.max_polls {
            return Err(Stuck::PollCap);
        }
        {
            let mut c = self.core.borrow_mut();
            c.transport_pending = false;
            c.stats.polls += 1;
            let n = self.polls;
            c.ev(Ev::Poll { n });
        }
        let mut cx = Context::from_waker(&self.waker);
        let r = fut.poll(&mut cx);
        let mut c = self.core.borrow_mut();
        match &r {
            Poll::Ready(_) => c.ev(Ev::PollReady),
            Poll::Pending => {
                c.ev(Ev::PollPending);
                if !c.transport_pending {
                    let woken = self.flag.0.load(Ordering::SeqCst) > 0 || !c.timers.is_empty();
                    if woken {
                        c.sim_violations
                            .push("future returned Pending although the transport did not".to_string());
                    } else {
                        // nobody holds the waker and no wake-up is scheduled: a real executor would
                        // never poll this task again
                        c.sim_violations.push(format!(
                            "{LOST_WAKE}: future returned Pending although the transport did not, and no wake-up was requested: the task would hang"
                        ));
                    }
                }
            }
        }
        Ok(r)
    }

    /// Block (in simulated time) until the task is woken; if nobody will ever wake it, poll
    /// spuriously (legal for any future).
    pub fn wait(&mut self) {
        loop {
            if self.flag.0.swap(0, Ordering::SeqCst) > 0 {
                return;
            }
            let mut c = self.core.borrow_mut();
            if c.timers.is_empty() {
                c.stats.spurious_poll += 1;
                c.ev(Ev::Spurious);
                return;
            }
            let mut best = 0;
            for i in 1..c.timers.len() {
                if (c.timers[i].0, c.timers[i].1) < (c.timers[best].0, c.timers[best].1) {
                    best = i;
                }
            }
            let (due, _seq, w) = c.timers.swap_remove(best);
            if due > c.clock {
                c.clock = due;
            }
            c.stats.timer_wake += 1;
            c.ev(Ev::TimerWake { at: due });
            drop(c);
            w.wake();
        }
    }

    /// Drive a future to completion.
    pub fn run<F: Future + ?Sized>(&mut self, mut fut: Pin<&mut F>) -> Result<F::Output, Stuck> {
        loop {
            match self.poll_once(fut.as_mut())? {
                Poll::Ready(x) => return Ok(x),
                Poll::Pending => self.wait(),
            }
        }
    }

    pub fn note_cancel(&mut self) {
        let mut c = self.core.borrow_mut();
        c.stats.cancel += 1;
        c.ev(Ev::Cancel);
    }
}
