//! The only source of randomness in the simulator: SplitMix64-seeded xoshiro256**.
//! One `Rng` per run, created from `mix(master_seed, scenario, run_index)`.

#[derive(Clone, Debug)]
pub struct Rng {
    s: [u64; 4],
}

pub fn splitmix(x: &mut u64) -> u64 {
    *x = x.wrapping_add(0x9E37_79B9_7F4A_7C15);
    let mut z = *x;
    z = (z ^ (z >> 30)).wrapping_mul(0xBF58_476D_1CE4_E5B9);
    z = (z ^ (z >> 27)).wrapping_mul(0x94D0_49BB_1331_11EB);
    z ^ (z >> 31)
}

pub fn fnv64(data: &[u8]) -> u64 {
    let mut h: u64 = 0xcbf2_9ce4_8422_2325;
    for b in data {
        h ^= u64::from(*b);
        h = h.wrapping_mul(0x0000_0100_0000_01B3);
    }
    h
}

/// Seed of run `idx` of scenario `scenario` under master seed `master`.
pub fn run_seed(master: u64, scenario: &str, idx: u64) -> u64 {
    let mut x = master ^ fnv64(scenario.as_bytes()).rotate_left(17) ^ idx.wrapping_mul(0xD6E8_FEB8_6659_FD93);
    let a = splitmix(&mut x);
    let b = splitmix(&mut x);
    a ^ b.rotate_left(29)
}

impl Rng {
    pub fn new(seed: u64) -> Rng {
        let mut x = seed;
        Rng {
            s: [splitmix(&mut x), splitmix(&mut x), splitmix(&mut x), splitmix(&mut x)],
        }
    }

    pub fn next_u64(&mut self) -> u64 {
        let result = self.s[1].wrapping_mul(5).rotate_left(7).wrapping_mul(9);
        let t = self.s[1] << 17;
        self.s[2] ^= self.s[0];
        self.s[3] ^= self.s[1];
        self.s[1] ^= self.s[2];
        self.s[0] ^= self.s[3];
        self.s[2] ^= t;
        self.s[3] = self.s[3].rotate_left(45);
        result
    }

    /// Uniform in 0..n (n > 0).
    pub fn below(&mut self, n: u64) -> u64 {
        debug_assert!(n > 0);
        // multiply-shift; the tiny bias is irrelevant here
        ((u128::from(self.next_u64()) * u128::from(n)) >> 64) as u64
    }

    pub fn usize_below(&mut self, n: usize) -> usize {
        self.below(n as u64) as usize
    }

    /// Uniform in lo..=hi.
    pub fn range(&mut self, lo: u64, hi: u64) -> u64 {
        lo + self.below(hi - lo + 1)
    }

    pub fn urange(&mut self, lo: usize, hi: usize) -> usize {
        self.range(lo as u64, hi as u64) as usize
    }

    /// True with probability num/den.
    pub fn chance(&mut self, num: u64, den: u64) -> bool {
        self.below(den) < num
    }

    pub fn bool(&mut self) -> bool {
        self.next_u64() & 1 == 1
    }

    pub fn u8(&mut self) -> u8 {
        self.next_u64() as u8
    }

    pub fn u16(&mut self) -> u16 {
        self.next_u64() as u16
    }

    pub fn u32(&mut self) -> u32 {
        self.next_u64() as u32
    }

    pub fn pick<'a, T>(&mut self, xs: &'a [T]) -> &'a T {
        &xs[self.usize_below(xs.len())]
    }

    pub fn bytes(&mut self, n: usize) -> Vec<u8> {
        let mut v = Vec::with_capacity(n);
        while v.len() < n {
            let x = self.next_u64().to_le_bytes();
            let take = (n - v.len()).min(8);
            v.extend_from_slice(&x[..take]);
        }
        v
    }

    /// Geometric-ish small number: 0 most often.
    pub fn small(&mut self, max: usize) -> usize {
        let mut n = 0;
        while n < max && self.chance(1, 2) {
            n += 1;
        }
        n
    }

    pub fn fork(&mut self) -> Rng {
        Rng::new(self.next_u64())
    }
}
