//! A `Case` is one explicit, serialisable simulated run: workload, schedule and faults. The seed
//! is only used to generate a case; running a case is a pure function of the case and the code.

use std::hash::{Hash, Hasher};

use serde::{Deserialize, Serialize};

use crate::ast::*;
use crate::fe::Front;
use crate::refcodec::Style;
use crate::rng::Rng;
use crate::sim::{Fault, ReadEv, Stats, WakeP, WriteEv};

/// Wire-stage corruption (fault kind F11). Positions are taken modulo the stream length so a
/// mutation stays applicable while a case is minimised.
#[derive(Clone, Debug, PartialEq, Eq, Serialize, Deserialize, Hash)]
pub enum Mutation {
    Flip { pos: usize, bit: u8 },
    Set { pos: usize, val: u8 },
    Truncate { len: usize },
    Extend(Bs),
    Insert { pos: usize, bytes: Bs },
    Delete { pos: usize, len: usize },
    /// duplicate the span [pos, pos+len) in place
    Dup { pos: usize, len: usize },
    /// overwrite the remaining-length field of the first frame with these bytes
    RemLen(Bs),
}

pub fn apply_mutations(stream: &mut Vec<u8>, muts: &[Mutation]) {
    for m in muts {
        match m {
            Mutation::Flip { pos, bit } => {
                if !stream.is_empty() {
                    let p = pos % stream.len();
                    stream[p] ^= 1 << (bit % 8);
                }
            }
            Mutation::Set { pos, val } => {
                if !stream.is_empty() {
                    let p = pos % stream.len();
                    stream[p] = *val;
                }
            }
            Mutation::Truncate { len } => {
                if !stream.is_empty() {
                    stream.truncate(len % stream.len());
                }
            }
            Mutation::Extend(b) => stream.extend_from_slice(&b.0),
            Mutation::Insert { pos, bytes } => {
                let p = pos % (stream.len() + 1);
                let tail = stream.split_off(p);
                stream.extend_from_slice(&bytes.0);
                stream.extend_from_slice(&tail);
            }
            Mutation::Delete { pos, len } => {
                if !stream.is_empty() {
                    let p = pos % stream.len();
                    let e = (p + len).min(stream.len());
                    stream.drain(p..e);
                }
            }
            Mutation::Dup { pos, len } => {
                if !stream.is_empty() {
                    let p = pos % stream.len();
                    let e = (p + len).min(stream.len());
                    let d = stream[p..e].to_vec();
                    let tail = stream.split_off(e);
                    stream.extend_from_slice(&d);
                    stream.extend_from_slice(&tail);
                }
            }
            Mutation::RemLen(b) => {
                if stream.len() >= 2 {
                    // replace the existing varint
                    let mut n = 1;
                    while n < stream.len() && n < 5 && stream[n] & 0x80 != 0 {
                        n += 1;
                    }
                    let end = (n + 1).min(stream.len());
                    let tail = stream.split_off(end);
                    stream.truncate(1);
                    stream.extend_from_slice(&b.0);
                    stream.extend_from_slice(&tail);
                }
            }
        }
    }
}

#[derive(Clone, Debug, PartialEq, Eq, Serialize, Deserialize, Hash)]
pub struct Case {
    pub property: String,
    pub scenario: String,
    pub fam: Fam,
    pub front: Front,
    /// workload as neutral ASTs (empty for raw-byte scenarios)
    #[serde(default)]
    pub packets: Vec<Ast>,
    #[serde(default)]
    pub style: Style,
    /// raw stream for byte-level scenarios
    #[serde(default)]
    pub stream: Bs,
    #[serde(default)]
    pub mutations: Vec<Mutation>,
    /// bytes that follow the frame(s) on the wire
    #[serde(default)]
    pub suffix: Bs,
    #[serde(default)]
    pub read_script: Vec<ReadEv>,
    /// chunk size once the script is exhausted (0 = everything that is left)
    #[serde(default)]
    pub read_tail: usize,
    /// cancel[i]: drop and re-create the poll decoder's future after its i-th Pending
    #[serde(default)]
    pub cancel: Vec<bool>,
    #[serde(default)]
    pub write_script: Vec<WriteEv>,
    #[serde(default)]
    pub write_tail: usize,
    /// (byte position, kind id) read errors
    #[serde(default)]
    pub read_faults: Vec<(usize, u8)>,
    #[serde(default)]
    pub write_faults: Vec<(usize, Fault)>,
    /// the peer closes the stream after this many bytes
    #[serde(default)]
    pub cut: Option<usize>,
    /// scenario-specific integers (documented per scenario)
    #[serde(default)]
    pub n: Vec<i64>,
    /// how the simulated reader fills the ReadBuf (all legal for an AsyncRead):
    /// 0 = put_slice; 1 = initialise the whole unfilled region, copy, advance;
    /// 2 = initialise exactly the delivered bytes, copy, advance
    #[serde(default)]
    pub reader_style: u8,
    /// 1 = the simulated AsyncWrite is vectored-write capable
    #[serde(default)]
    pub writer_style: u8,
}

impl Case {
    pub fn new(property: &str, scenario: &str, fam: Fam, front: Front) -> Case {
        Case {
            property: property.to_string(),
            scenario: scenario.to_string(),
            fam,
            front,
            packets: vec![],
            style: Style::default(),
            stream: Bs(vec![]),
            mutations: vec![],
            suffix: Bs(vec![]),
            read_script: vec![],
            read_tail: 0,
            cancel: vec![],
            write_script: vec![],
            write_tail: 0,
            read_faults: vec![],
            write_faults: vec![],
            cut: None,
            n: vec![],
            reader_style: 0,
            writer_style: 0,
        }
    }

    pub fn hash64(&self) -> u64 {
        #[allow(deprecated)]
        let mut h = std::hash::SipHasher::new();
        self.hash(&mut h);
        h.finish()
    }

}

#[derive(Clone, Debug, PartialEq, Eq)]
pub struct Violation {
    /// stable identity of the failure class: used for known-findings matching and minimisation
    pub signature: String,
    pub detail: String,
}

#[derive(Clone, Debug, Default)]
pub struct RunOut {
    pub violations: Vec<Violation>,
    pub hash: u64,
    pub stats: Stats,
    /// rare states reached in this run
    pub probes: Vec<&'static str>,
    /// schedules / fault points / sub-cases evaluated inside this run (>= 1)
    pub evals: u64,
    /// does this case count as non-trivial by the scenario's rule?
    pub nontrivial: bool,
    pub trace: Vec<String>,
    /// simulated steps (transport events + polls)
    pub steps: u64,
}

impl RunOut {
    pub fn violate(&mut self, signature: impl Into<String>, detail: impl Into<String>) {
        let signature = signature.into();
        if !self.violations.iter().any(|v| v.signature == signature) {
            self.violations.push(Violation { signature, detail: detail.into() });
        }
    }
    /// Mix observable results (bytes produced, outcomes) into the run hash, so the determinism
    /// witness covers what the library returned and not only the transport events.
    pub fn mix(&mut self, data: &[u8]) {
        self.hash = self.hash.rotate_left(11) ^ crate::rng::fnv64(data);
    }
    pub fn probe(&mut self, p: &'static str) {
        if !self.probes.contains(&p) {
            self.probes.push(p);
        }
    }
    pub fn absorb_core(&mut self, core: &crate::sim::CoreRef, trace: bool) {
        let c = core.borrow();
        self.stats.add(&c.stats);
        self.steps += c.stats.steps;
        self.hash = self.hash.rotate_left(7) ^ c.hash;
        if trace {
            self.trace.extend(c.trace_text());
        }
    }
}

// ---------------------------------------------------------------------------------------------
// Schedule generation

#[derive(Clone, Copy, Debug, PartialEq, Eq)]
pub enum ChunkMode {
    AllAtOnce,
    All1,
    Uniform(usize),
    Geometric,
    /// chunk ends aligned to the given boundaries +-1
    Boundary,
}

pub fn pick_wake(rng: &mut Rng) -> WakeP {
    match rng.below(4) {
        0 => WakeP::Never,
        1 => WakeP::Later(rng.range(1, 5) as u32),
        _ => WakeP::Now,
    }
}

/// Random read schedule for a stream of `len` bytes. `pend_permil` is the chance of a Pending
/// before each read. `bounds` are interesting byte offsets (field boundaries).
pub fn gen_read_script(
    rng: &mut Rng,
    len: usize,
    pend_permil: u64,
    bounds: &[usize],
) -> (Vec<ReadEv>, usize) {
    let mode = match rng.below(6) {
        0 => ChunkMode::AllAtOnce,
        1 => ChunkMode::All1,
        2 => ChunkMode::Uniform(rng.urange(2, 9)),
        3 => ChunkMode::Uniform(rng.urange(2, 64)),
        4 => ChunkMode::Geometric,
        _ => ChunkMode::Boundary,
    };
    let mut s = Vec::new();
    let mut tail = 0;
    let budget = 256usize; // explicit events; the tail rule covers the rest
    match mode {
        ChunkMode::AllAtOnce => {
            if pend_permil > 0 && rng.below(1000) < pend_permil {
                push_read_pending(rng, &mut s);
            }
        }
        ChunkMode::All1 => {
            tail = 1;
            let mut pos = 0;
            while pos < len && s.len() < budget {
                if rng.below(1000) < pend_permil {
                    push_read_pending(rng, &mut s);
                }
                s.push(ReadEv::Chunk(1));
                pos += 1;
            }
        }
        ChunkMode::Uniform(k) => {
            tail = k;
            let mut pos = 0;
            while pos < len && s.len() < budget {
                if rng.below(1000) < pend_permil {
                    push_read_pending(rng, &mut s);
                }
                let n = rng.urange(1, k);
                s.push(ReadEv::Chunk(n));
                pos += n;
            }
        }
        ChunkMode::Geometric => {
            let mut pos = 0;
            let mut n = 1;
            while pos < len && s.len() < budget {
                if rng.below(1000) < pend_permil {
                    push_read_pending(rng, &mut s);
                }
                s.push(ReadEv::Chunk(n));
                pos += n;
                n = (n * 2).min(1 << 20);
            }
        }
        ChunkMode::Boundary => {
            let mut pos = 0;
            let mut bs: Vec<usize> = bounds.iter().copied().filter(|b| *b > 0 && *b < len).collect();
            bs.sort_unstable();
            bs.dedup();
            for b in bs {
                if s.len() >= budget {
                    break;
                }
                let target = match rng.below(3) {
                    0 => b.saturating_sub(1),
                    1 => b,
                    _ => b + 1,
                };
                if target > pos {
                    if rng.below(1000) < pend_permil {
                        push_read_pending(rng, &mut s);
                    }
                    s.push(ReadEv::Chunk(target - pos));
                    pos = target;
                }
            }
        }
    }
    (s, tail)
}

/// Sink style: bit 0 vectored-capable; bits 1-2 number of not-ready results per flush / shutdown.
pub fn gen_writer_style(rng: &mut Rng) -> u8 {
    let flush = if rng.chance(1, 3) { rng.range(1, 3) as u8 } else { 0 };
    rng.below(2) as u8 | (flush << 1)
}

/// A not-ready result, now and then followed by a run of further ones (a peer that stays
/// not-ready for a long time: 2..40 in a row with no byte moved in between).
pub fn push_read_pending(rng: &mut Rng, s: &mut Vec<ReadEv>) {
    s.push(ReadEv::Pending(pick_wake(rng)));
    if rng.chance(1, 6) {
        let k = *rng.pick(&[1usize, 1, 2, 3, 7, 20, 24, 33, 40]);
        for _ in 0..k {
            s.push(ReadEv::Pending(pick_wake(rng)));
        }
    }
}

pub fn push_write_pending(rng: &mut Rng, s: &mut Vec<WriteEv>) {
    s.push(WriteEv::Pending(pick_wake(rng)));
    if rng.chance(1, 6) {
        let k = *rng.pick(&[1usize, 1, 2, 3, 7, 20, 24, 33, 40]);
        for _ in 0..k {
            s.push(WriteEv::Pending(pick_wake(rng)));
        }
    }
}

pub fn gen_cancel(rng: &mut Rng, script: &[ReadEv], permil: u64) -> Vec<bool> {
    let pendings = script.iter().filter(|e| matches!(e, ReadEv::Pending(_))).count();
    (0..pendings).map(|_| rng.below(1000) < permil).collect()
}

pub fn gen_write_script(rng: &mut Rng, len: usize, pend_permil: u64, eintr_permil: u64) -> (Vec<WriteEv>, usize) {
    let mut s = Vec::new();
    let mode = rng.below(6);
    let (k, tail) = match mode {
        0 => (usize::MAX, 0),
        1 => (1, 1),
        2 => (rng.urange(2, 9), 0),
        3 => (rng.urange(2, 200), 0),
        // large chunks: sinks that take kilobytes at a time and then come up short
        4 => (rng.urange(1000, 70_000), 0),
        _ => (*rng.pick(&[4096usize, 8192, 16_384, 16_385, 32_768, 65_536]), 0),
    };
    let mut pos = 0;
    while pos < len && s.len() < 256 {
        if rng.below(1000) < pend_permil {
            push_write_pending(rng, &mut s);
        }
        if rng.below(1000) < eintr_permil {
            s.push(WriteEv::Interrupted);
        }
        let n = if k == usize::MAX { len } else if mode == 5 { if rng.chance(1, 3) { rng.urange(1, k) } else { k } } else { rng.urange(1, k) };
        s.push(WriteEv::Accept(n));
        pos += n;
    }
    (s, tail)
}
