#!/usr/bin/env python3
"""Round 5: collects the sub-agents' seeded changes from /tmp/seed5-*/ into /verif/seeded/<id>/.
usage: tools/mkseeded5.py <matrix-before.log> <matrix-final.log> <validate.log>   (prints the DESIGN table rows)"""
import json, os, re, shutil, sys, glob
def matrix(path):
    m = {}
    for line in open(path):
        g = re.match(r'^(C\d\d-\d+) \|(.*)$', line.strip())
        if g:
            m.setdefault(g.group(1), [])
            for x in g.group(2).split():
                if x not in m[g.group(1)]:
                    m[g.group(1)].append(x)
    return m
before, final = matrix(sys.argv[1]), matrix(sys.argv[2])
valid = {}
for line in open(sys.argv[3]):
    g = re.match(r'^(C\d\d-\d+) \| suite-with-patch: (.*?) \| demo-with-patch: (.*?) \| demo-without: (.*)$', line.strip())
    if g:
        valid[g.group(1)] = {"existing_suite_with_patch": g.group(2), "demo_with_patch": g.group(3), "demo_without_patch": g.group(4)}
RUN = json.load(open(sys.argv[4])) if len(sys.argv) > 4 else {}
notes = json.load(open('/verif/tools/seed_notes.json')) if os.path.exists('/verif/tools/seed_notes.json') else {}
rows = []
key = lambda d: (os.path.basename(d.rstrip('/')).split('-')[0], int(os.path.basename(d.rstrip('/')).split('-')[1]))
for d in sorted(glob.glob('/tmp/seed5-*/*/'), key=key):
    sid = os.path.basename(d.rstrip('/'))
    if not os.path.exists(d + 'patch.diff') or not os.path.exists(d + 'meta.json'):
        continue
    out = f'/verif/seeded/{sid}'
    os.makedirs(out, exist_ok=True)
    shutil.copy(d + 'patch.diff', out + '/patch.diff')
    shutil.copy(d + 'demo.rs', out + '/demo.rs')
    meta = json.load(open(d + 'meta.json'))
    meta['id'] = sid
    meta['round'] = 5
    meta['agent_verified'] = meta.pop('verified', '')
    meta['confirmed'] = valid.get(sid, {})
    meta['what_i_ran'] = ("scratch clone of /repo: git apply patch.diff; cargo test --offline => 73 pass; demo.rs as tests/demo.rs fails with the patch "
                          "and passes without it; then tools/try_patch.sh patch.diff <checks> against the patched clone (patch reverted afterwards): first the quick check of "
                          "the seed's own property with the checks as they were before round 5 ('caught_before_round5_extensions'), then, after the extensions, the own "
                          "property's check again plus the checks listed in 'checks_run_final'")
    meta['caught_before_round5_extensions'] = before.get(sid, [])
    meta['checks_run_final'] = RUN.get(sid, [])
    meta['caught_by'] = final.get(sid, [])
    meta['caught_by_own_property_check'] = meta['property'] in final.get(sid, [])
    if sid in notes:
        meta['note'] = notes[sid]
    json.dump(meta, open(out + '/meta.json', 'w'), indent=1)
    rows.append((sid, meta['title'], before.get(sid, []), final.get(sid, [])))
for sid, title, b, f in rows:
    print(f"| {sid} | {title} | {' '.join(b) if b else '—'} | {' '.join(f) if f else '—'} |")
