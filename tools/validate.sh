#!/bin/bash
# validate MANIFEST.json and every evidence file against the schemas
python3-vt - <<'PY'
import json, jsonschema, glob, sys
jsonschema.validate(json.load(open('/verif/MANIFEST.json')), json.load(open('/root/.vp/MANIFEST.schema.json')))
es = json.load(open('/root/.vp/EVIDENCE.schema.json'))
bad = 0
for f in sorted(glob.glob('/verif/evidence/C*.json')):
    try:
        jsonschema.validate(json.load(open(f)), es)
    except Exception as e:
        print("INVALID", f, str(e)[:200]); bad += 1
print("manifest ok; evidence files:", len(glob.glob('/verif/evidence/C*.json')), "invalid:", bad)
sys.exit(1 if bad else 0)
PY
