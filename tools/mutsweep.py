#!/usr/bin/env python3
"""tools/mutsweep.py — mechanical mutation sweep of /repo against the checks (sensitivity measurement).

  gen  <outdir> [--max N] [--seed S] [--all]    enumerate one-token mutants of /repo/src (non-test code), sample N
  run  <outdir> [--lanes L] [--budget B]  for each mutant: existing tests; if they pass, the checks (scaled
                                         thorough tier, B seconds each) until one raises a VIOLATION
  full <outdir>                          re-run the survivors of `run` with the registered quick checks
  report <outdir>                        summary table

Everything happens in scratch clones under <outdir> (outside /repo and /verif); /repo is only read.
The sweep is a measurement tool: it is not registered in MANIFEST.json and decides no property.
"""
import json, os, random, re, shutil, subprocess, sys, threading, time

REPO = os.environ.get("REPO", "/repo")
VERIF = os.path.dirname(os.path.dirname(os.path.abspath(__file__)))
ORDER = ["C01", "C04", "C10", "C06", "C02", "C09", "C12", "C20", "C13", "C08", "C11", "C03", "C05", "C07", "C14"]


def src_files():
    out = []
    for d, _, fs in os.walk(os.path.join(REPO, "src")):
        if "/tests" in d:
            continue
        for f in fs:
            if f.endswith(".rs"):
                out.append(os.path.join(d, f))
    return sorted(out)


def code_lines(path):
    """(lineno, text) of lines that are library code: stops at a #[cfg(test)] module, skips comments,
    attributes, use lines and the bodies of fmt::Display / fmt::Debug impls."""
    lines = open(path).read().split("\n")
    res = []
    skip_depth = None
    depth = 0
    for i, l in enumerate(lines):
        s = l.strip()
        if s.startswith("#[cfg(test)]"):
            break
        opens, closes = l.count("{"), l.count("}")
        if skip_depth is None and re.search(r"impl(<[^>]*>)?\s+(fmt::|std::fmt::)?(Display|Debug)\b", l):
            skip_depth = depth
        depth += opens - closes
        if skip_depth is not None:
            if depth <= skip_depth and closes:
                skip_depth = None
            continue
        if not s or s.startswith("//") or s.startswith("#[") or s.startswith("use ") or s.startswith("pub use "):
            continue
        res.append((i, l))
    return res


def strip_strings(l):
    # positions inside string literals or trailing comments are not mutated
    mask = [True] * len(l)
    in_s = False
    i = 0
    while i < len(l):
        c = l[i]
        if in_s:
            mask[i] = False
            if c == "\\":
                if i + 1 < len(l):
                    mask[i + 1] = False
                i += 2
                continue
            if c == '"':
                in_s = False
        else:
            if c == '"':
                in_s = True
                mask[i] = False
            elif l.startswith("//", i):
                for j in range(i, len(l)):
                    mask[j] = False
                break
        i += 1
    return mask


OPS = [
    ("eq", r"==", ["!="]), ("ne", r"!=", ["=="]),
    ("le", r"<=", ["<"]), ("ge", r">=", [">"]),
    ("lt", r"(?<=\s)<(?=\s)", ["<="]), ("gt", r"(?<=\s)>(?=\s)", [">="]),
    ("and", r"&&", ["||"]), ("or", r"(?<=[\w)\]] )\|\|(?= )", ["&&"]),
    ("add", r"(?<=\s)\+(?=\s)", ["-"]), ("sub", r"(?<=\s)-(?=\s)", ["+"]),
    ("addas", r"\+=", ["-="]), ("subas", r"-=", ["+="]),
    ("shl", r"<<", [">>"]), ("shr", r">>(?!=)", ["<<"]),
    ("band", r"(?<=\s)&(?=\s)", ["|"]), ("bor", r"(?<=[\w)\]] )\|(?= [\w(])", ["&"]),
    ("true", r"\btrue\b", ["false"]), ("false", r"\bfalse\b", ["true"]),
    ("min", r"\.min\(", [".max("]), ("max", r"\.max\(", [".min("]),
    ("not", r"(?<=[\s(])!(?=[\w(])(?!\w+!)", [""]),
]
INT = re.compile(r"(?<![\w.])(0x[0-9A-Fa-f_]+|0b[01_]+|\d[\d_]*)(?:(u8|u16|u32|u64|usize|i32))?(?![\w.])")


def mutants_of_line(l):
    mask = strip_strings(l)
    out = []
    s = l.strip()
    for name, pat, reps in OPS:
        for m in re.finditer(pat, l):
            if not all(mask[m.start():m.end()] or [True]):
                continue
            if name in ("lt", "gt", "shl", "shr") and ("->" in l[max(0, m.start() - 2):m.end() + 1] or "=>" in l[max(0, m.start() - 2):m.end() + 1]):
                continue
            for r in reps:
                out.append((name, l[:m.start()] + r + l[m.end():]))
    for m in INT.finditer(l):
        if not mask[m.start()]:
            continue
        tok = m.group(1)
        try:
            if tok.startswith("0x"):
                v = int(tok.replace("_", ""), 16)
                alts = [hex(v + 1), hex(v - 1) if v else None, hex(v ^ 0x80) if v < 256 else None]
            elif tok.startswith("0b"):
                v = int(tok.replace("_", "")[2:], 2)
                width = len(tok.replace("_", "")) - 2
                alts = [("0b{:0%db}" % width).format((v << 1) & ((1 << width) - 1)) if v else None,
                        ("0b{:0%db}" % width).format(v >> 1) if v > 1 else None,
                        ("0b{:0%db}" % width).format(v ^ 1)]
            else:
                v = int(tok.replace("_", ""))
                alts = [str(v + 1), str(v - 1) if v else None]
        except ValueError:
            continue
        for a in alts:
            if a is None or a == tok:
                continue
            out.append(("int", l[:m.start(1)] + a + l[m.end(1):]))
    # guard removal / negation
    m = re.match(r"^(\s*(?:\} else )?if )(?!let )(.+)( \{\s*)$", l)
    if m:
        out.append(("if-false", m.group(1) + "false && (" + m.group(2) + ")" + m.group(3)))
        out.append(("if-true", m.group(1) + "true || (" + m.group(2) + ")" + m.group(3)))
    # statement deletion: calls / assignments on one line
    if re.match(r"^\s*[\w.:*\[\]() ]+(\+=|-=|=)\s[^=].*;\s*$", l) and not s.startswith("let "):
        out.append(("del-assign", re.match(r"^\s*", l).group(0) + "// deleted"))
    elif re.match(r"^\s*[\w.:]+(\(.*\))(\.await)?\??;\s*$", l) and not s.startswith("return"):
        out.append(("del-call", re.match(r"^\s*", l).group(0) + "// deleted"))
    return [(n, t) for n, t in out if t != l]


def cmd_gen(outdir, maxn, seed, perline=2):
    os.makedirs(outdir, exist_ok=True)
    allm = []
    for f in src_files():
        rel = os.path.relpath(f, REPO)
        for i, l in code_lines(f):
            for name, t in mutants_of_line(l):
                allm.append({"file": rel, "line": i + 1, "op": name, "before": l, "after": t})
    rnd = random.Random(seed)
    rnd.shuffle(allm)
    total = len(allm)
    # at most 2 mutants per source line in the sample
    seen = {}
    sample = []
    for m in allm:
        k = (m["file"], m["line"])
        if seen.get(k, 0) >= perline:
            continue
        if m["op"] == "int" and sum(1 for x in sample if x["op"] == "int") >= maxn // 3:
            continue
        seen[k] = seen.get(k, 0) + 1
        sample.append(m)
        if len(sample) >= maxn:
            break
    for n, m in enumerate(sample):
        m["id"] = "x%04d" % n
    with open(os.path.join(outdir, "mutants.jsonl"), "w") as fh:
        for m in sample:
            fh.write(json.dumps(m) + "\n")
    print("enumerated %d one-token mutants, sampled %d -> %s/mutants.jsonl" % (total, len(sample), outdir))


def sh(cmd, cwd=None, env=None, timeout=None):
    e = dict(os.environ)
    e["CARGO_NET_OFFLINE"] = "true"
    if env:
        e.update(env)
    try:
        p = subprocess.run(cmd, shell=True, cwd=cwd, env=e, stdout=subprocess.PIPE, stderr=subprocess.STDOUT,
                           timeout=timeout, start_new_session=True)
        return p.returncode, p.stdout.decode("utf-8", "replace")
    except subprocess.TimeoutExpired as ex:
        return 124, (ex.stdout or b"").decode("utf-8", "replace")


def setup_lane(outdir, k, single_profile=True):
    lane = os.path.join(outdir, ("lane%d" if single_profile else "flane%d") % k)
    if os.path.isdir(lane):
        return lane
    os.makedirs(lane)
    sh("git clone -q %s %s/repo" % (REPO, lane))
    os.makedirs(lane + "/verif")
    for item in ["check", "known_findings.jsonl", "known", "tools"]:
        sh("cp -r %s/%s %s/verif/" % (VERIF, item, lane))
    os.makedirs(lane + "/verif/sim")
    for item in ["Cargo.toml", "Cargo.lock", "src", ".cargo"]:
        sh("cp -r %s/sim/%s %s/verif/sim/" % (VERIF, item, lane))
    ct = open(lane + "/verif/sim/Cargo.toml").read().replace('"/repo"', '"%s/repo"' % lane)
    open(lane + "/verif/sim/Cargo.toml", "w").write(ct)
    if single_profile:
        # the sweep runs the checked profile only: the release leg of C02/C09/C11 re-runs the same binary
        c = open(lane + "/verif/check").read().replace(" && cargo build --offline --release --quiet", "")
        open(lane + "/verif/check", "w").write(c)
    rc, out = sh("./check C10 quick", cwd=lane + "/verif", env={"VERIF_OUT": lane + "/out", "VERIF_JOBS": "2"}, timeout=1800)
    if single_profile:
        os.makedirs(lane + "/verif/sim/target/release", exist_ok=True)
        sh("ln -sf ../checked/mqtt-sim %s/verif/sim/target/release/mqtt-sim" % lane)
    sh("cargo test --offline --no-run", cwd=lane + "/repo", timeout=1800)
    return lane


def apply_mut(lane, m):
    p = os.path.join(lane, "repo", m["file"])
    lines = open(p).read().split("\n")
    assert lines[m["line"] - 1] == m["before"], (m, lines[m["line"] - 1])
    lines[m["line"] - 1] = m["after"]
    open(p, "w").write("\n".join(lines))


def revert(lane):
    sh("git checkout -q -- .", cwd=lane + "/repo")


def kill_leftovers(lane):
    sh("ps -eo pid,args | awk -v p='%s/' 'index($0,p) && !/awk/ {print $1}' | xargs -r kill -9" % lane)


def run_checks(lane, tier, budget, jobs, props):
    env = {"VERIF_OUT": lane + "/out", "VERIF_JOBS": str(jobs), "VERIF_MIRI": "0", "VERIF_BUDGET_S": str(budget),
           "VERIF_BISECT_S": "20"}
    for p in props:
        rc, out = sh("./check %s %s" % (p, tier), cwd=lane + "/verif", env=env, timeout=900)
        if re.search(r"^VIOLATION property=", out, re.M):
            sig = re.search(r"^  signature: (.*)$", out, re.M)
            return p, (sig.group(1) if sig else "?")
        if rc == 2:
            return "HARNESS-ERROR:" + p, out[-400:]
        if rc == 124:
            return "TIMEOUT:" + p, ""
    return None, None


def cmd_run(outdir, lanes, budget, tier="thorough", only=None, resfile="results.jsonl"):
    muts = [json.loads(l) for l in open(os.path.join(outdir, "mutants.jsonl"))]
    done = set()
    rp = os.path.join(outdir, resfile)
    if os.path.exists(rp):
        done = {json.loads(l)["id"] for l in open(rp)}
    todo = [m for m in muts if m["id"] not in done and (only is None or m["id"] in only)]
    lock = threading.Lock()
    jobs = max(1, 16 // lanes)
    deadline = float(os.environ.get("SWEEP_DEADLINE", "0")) or None

    def worker(k):
        lane = setup_lane(outdir, k, single_profile=(tier == "thorough"))
        while True:
            with lock:
                if not todo or (deadline and time.time() > deadline):
                    return
                m = todo.pop(0)
            t0 = time.time()
            revert(lane)
            apply_mut(lane, m)
            res = dict(m)
            rc, out = sh("cargo test --offline 2>&1", cwd=lane + "/repo", timeout=240)
            kill_leftovers(lane)
            if rc == 124:
                res["status"] = "tests-hang"
            elif "error: could not compile" in out or "error[" in out:
                res["status"] = "nocompile"
            elif rc != 0 or not re.search(r"test result: ok\. 73 passed", out):
                res["status"] = "killed-by-tests"
            else:
                p, sig = run_checks(lane, tier, budget, jobs, ORDER)
                kill_leftovers(lane)
                if p is None:
                    res["status"] = "survived"
                elif p.startswith("HARNESS") or p.startswith("TIMEOUT"):
                    res["status"] = p
                    res["detail"] = sig
                else:
                    res["status"] = "caught"
                    res["by"] = p
                    res["signature"] = sig
            res["secs"] = round(time.time() - t0, 1)
            revert(lane)
            with lock:
                with open(rp, "a") as fh:
                    fh.write(json.dumps(res) + "\n")
                print(res["id"], res["file"], res["line"], res["op"], res["status"], res.get("by", ""), res["secs"], flush=True)

    ts = [threading.Thread(target=worker, args=(k,)) for k in range(lanes)]
    for t in ts:
        t.start()
    for t in ts:
        t.join()


def cmd_report(outdir):
    rs = [json.loads(l) for l in open(os.path.join(outdir, "results.jsonl"))]
    full = {}
    fp = os.path.join(outdir, "full.jsonl")
    if os.path.exists(fp):
        full = {json.loads(l)["id"]: json.loads(l) for l in open(fp)}
    cnt = {}
    by = {}
    for r in rs:
        st = r["status"]
        if st == "survived" and r["id"] in full:
            f = full[r["id"]]
            st = "caught" if f["status"] == "caught" else "survived-quick" if f["status"] == "survived" else f["status"]
            r = f
        cnt[st] = cnt.get(st, 0) + 1
        if st == "caught":
            by[r["by"]] = by.get(r["by"], 0) + 1
    print(json.dumps({"mutants": len(rs), "status": cnt, "first_catching_check": dict(sorted(by.items()))}, indent=1))
    for r in rs:
        if r["status"] == "survived":
            f = full.get(r["id"])
            if f is None or f["status"] == "survived":
                print("SURVIVOR %s %s:%d %s | %s -> %s" % (r["id"], r["file"], r["line"], r["op"], r["before"].strip(), r["after"].strip()))


if __name__ == "__main__":
    a = sys.argv[1:]
    if len(a) < 2:
        print(__doc__)
        sys.exit(2)

    def opt(name, d):
        return type(d)(a[a.index(name) + 1]) if name in a else d

    if a[0] == "gen":
        cmd_gen(a[1], opt("--max", 400), opt("--seed", 1), 10**6 if "--all" in a else 2)
    elif a[0] == "run":
        cmd_run(a[1], opt("--lanes", 5), opt("--budget", 6))
    elif a[0] == "full":
        rs = [json.loads(l) for l in open(os.path.join(a[1], "results.jsonl"))]
        only = {r["id"] for r in rs if r["status"] == "survived"}
        cmd_run(a[1], opt("--lanes", 2), 0, tier="quick", only=only, resfile="full.jsonl")
    elif a[0] == "second":
        # mutants whose first catcher was C01: which other check catches them (C01 skipped)
        rs = [json.loads(l) for l in open(os.path.join(a[1], "results.jsonl"))]
        only = {r["id"] for r in rs if r["status"] == "caught" and r.get("by") == "C01"}
        ORDER.remove("C01")
        cmd_run(a[1], opt("--lanes", 5), opt("--budget", 6), only=only, resfile="second.jsonl")
    elif a[0] == "report":
        cmd_report(a[1])
