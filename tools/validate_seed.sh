#!/bin/bash
# tools/validate_seed.sh <seed-dir>   independent confirmation of a seeded change in a scratch worktree:
# patch applies, crate builds, the 73 existing tests pass with it, the demo fails with it and passes without.
set -u
d="$(readlink -f "$1")"
wt=/tmp/wt-validate
[ -d $wt ] || git -C /repo worktree add --detach $wt HEAD >/dev/null 2>&1
cd $wt && git checkout -q -- . && rm -rf tests
git apply "$d/patch.diff" || { echo "$1: PATCH DOES NOT APPLY"; exit 1; }
t=$(timeout -s KILL 300 cargo test --offline 2>&1 | grep -E "^test result" | head -1)
mkdir -p tests && cp "$d/demo.rs" tests/demo.rs
with=$(timeout -s KILL 300 cargo test --offline --test demo 2>&1 | grep -E "^test result" | head -1)
git checkout -q -- .
without=$(timeout -s KILL 300 cargo test --offline --test demo 2>&1 | grep -E "^test result" | head -1)
rm -rf tests
echo "$(basename $d) | suite-with-patch: $t | demo-with-patch: $with | demo-without: $without"
