#!/usr/bin/env python3
"""Collects the sub-agents' seeded changes into /verif/seeded/<id>/ (patch.diff, demo.rs, meta.json).
usage: tools/mkseeded.py <matrix.log> <validate.log>..."""
import json, os, re, shutil, sys, glob
matrix = {}
for line in open(sys.argv[1]):
    m = re.match(r'^(C\d\d-\d) \|(.*)$', line.strip())
    if m:
        matrix[m.group(1)] = m.group(2).split()
valid = {}
for f in sys.argv[2:]:
    for line in open(f):
        m = re.match(r'^(C\d\d-\d) \| suite-with-patch: (.*?) \| demo-with-patch: (.*?) \| demo-without: (.*)$', line.strip())
        if m:
            valid[m.group(1)] = {"existing_suite_with_patch": m.group(2), "demo_with_patch": m.group(3), "demo_without_patch": m.group(4)}
notes = json.load(open('/verif/tools/seed_notes.json')) if os.path.exists('/verif/tools/seed_notes.json') else {}
rows = []
for d in sorted(glob.glob('/tmp/seed-*/*/') + glob.glob('/tmp/seed2-*/*/') + glob.glob('/tmp/seed3-*/*/') + glob.glob('/tmp/seed4-*/*/')):
    sid = os.path.basename(d.rstrip('/'))
    if not os.path.exists(d + 'patch.diff'):
        continue
    out = f'/verif/seeded/{sid}'
    os.makedirs(out, exist_ok=True)
    shutil.copy(d + 'patch.diff', out + '/patch.diff')
    shutil.copy(d + 'demo.rs', out + '/demo.rs')
    meta = json.load(open(d + 'meta.json'))
    meta['id'] = sid
    meta['round'] = 4 if '/seed4-' in d else 3 if '/seed3-' in d else (2 if '/seed2-' in d else 1)
    meta['agent_verified'] = meta.pop('verified', '')
    meta['confirmed'] = valid.get(sid, {})
    meta['what_i_ran'] = ("tools/validate_seed.sh (scratch worktree: git apply patch.diff; cargo test --offline => 73 pass; "
                          "demo.rs as tests/demo.rs fails with the patch and passes without it); then tools/try_patch.sh patch.diff "
                          "C01 C02 C03 C04 C05 C06 C07 C08 C09 C10 C11 C12 C13 C14 C20 (all quick checks against the patched tree, patch reverted afterwards)")
    meta['caught_by'] = matrix.get(sid, None)
    meta['caught_by_own_property_check'] = (meta['property'] in matrix.get(sid, [])) if sid in matrix else None
    if sid in notes:
        meta['note'] = notes[sid]
    json.dump(meta, open(out + '/meta.json', 'w'), indent=1)
    rows.append((sid, meta['property'], meta['title'], matrix.get(sid)))
print(f"| Seed | Change | Caught by (quick checks) |\n|---|---|---|")
for sid, prop, title, c in rows:
    cb = ' '.join(c) if c else ('—' if c is not None else '?')
    print(f"| {sid} | {title} | {cb} |")
