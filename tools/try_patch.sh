#!/bin/bash
# tools/try_patch.sh <patch.diff> [--tests] <Cxx>...   apply a patch to /repo, run the quick checks named
# (evidence and replays go to a scratch dir, not /verif), then restore /repo. Prints which checks alarm.
set -u
REPO="${REPO:-/repo}"
patch="$(readlink -f "$1")"; shift
tests=0; if [ "${1:-}" = "--tests" ]; then tests=1; shift; fi
if [ -n "$(git -C "$REPO" status --porcelain --untracked-files=no)" ]; then echo "refusing: /repo has uncommitted changes" >&2; exit 2; fi
scratch=$(mktemp -d /tmp/vout.XXXXXX)
git -C "$REPO" apply "$patch" || { echo "patch does not apply: $patch" >&2; rm -rf "$scratch"; exit 2; }
trap 'git -C "$REPO" checkout -- . ; rm -rf "$scratch"' EXIT
if [ $tests = 1 ]; then
  r=$(cd "$REPO" && timeout -s KILL 300 cargo test --offline 2>&1 | grep -E "^test result" | head -1)
  pkill -9 -f "$REPO/target/debug/deps/mqtt_proto-" 2>/dev/null
  echo "existing tests: ${r:-TIMEOUT/FAILED}"
fi
caught=""
for p in "$@"; do
  out=$(VERIF_OUT="$scratch" "$(dirname "$(readlink -f "$0")")/../check" "$p" quick 2>&1); code=$?
  sigs=$(echo "$out" | grep -E "^  signature:|^further violation" | sed -E 's/^  signature: //; s/^further violation \(not minimised\): signature //; s/ run_index.*//' | sort -u | head -4 | tr '\n' ' ')
  echo "$p exit=$code $sigs"
  if echo "$out" | grep -q "^VIOLATION property="; then caught="$caught $p"; fi
  if [ $code = 2 ]; then echo "$out" | tail -5; fi
done
echo "CAUGHT-BY:$caught"
